#!/usr/bin/env python3
"""Dependency audit of the contract store: for every `ensures` clause C of every function under contract, leave C out
(env VERIF_DROP_CLAUSE) and re-verify every unit; the clauses that fail now are proved FROM C, so C must carry their
property tags (a change that breaks C in its function would otherwise go unnoticed by the checks of those properties).
Writes build/dep_audit.json: {"<fn>#<k>": {"clause": "<tags>", "dependents": [[unit, clause_id, [tags]], ...]}}.
usage: dep_audit.py [workers]      (unit results are cached by unit text, so only units that mention the function re-run)"""
import os, sys, json, subprocess, glob, re, concurrent.futures
V = os.path.dirname(os.path.dirname(os.path.abspath(__file__)))
sys.path.insert(0, os.path.join(V, "extract"))
UNITS = ["map_ctor", "map_read", "map_write", "map_bulk", "map_entry", "set", "collect", "iter", "set_iter", "view", "viewmut", "union", "intersection", "difference"]
WORKER = r'''
import os, sys, json
sys.path.insert(0, os.path.join(%r, "extract"))
import runner
out = []
for u in %r:
    r = runner.run_unit(u, threads=4, rlimit=30)
    if r["status"] not in ("ok", "failed"):
        out.append([u, "STATUS:" + r["status"], [], "; ".join(r["notes"])[:200]]); continue
    for f in r["failures"]:
        out.append([u, (f.clause_ids[0] if f.clause_ids else (f.repo_sites[0] if f.repo_sites else f.message)), sorted(set(f.tags)), f.message[:80]])
print("RESULT " + json.dumps(out))
'''
def clauses():
    res = []
    for f in sorted(glob.glob(os.path.join(V, "contracts", "*.fns"))) + [os.path.join(V, "contracts", "core.inc")]:
        cur = None; k = 0
        for line in open(f):
            if line.startswith("=== fn "):
                cur = line.split()[2] + "::" + line.split()[3]; k = 0
            elif line.startswith("=== "):
                cur = None
            m = re.match(r"ensures\s*(?:\[([^\]]*)\])?", line)
            if m and cur and line.startswith("ensures"):
                res.append((cur, k, m.group(1) or "")); k += 1
    return res
def run(job):
    fn, k, tags, wid = job
    env = dict(os.environ)
    env["VERIF_DROP_CLAUSE"] = "%s#%d" % (fn, k)
    env["VERIF_EVAL_CACHE"] = os.path.join(V, "build", "dep_cache")
    env["VERIF_BUILD"] = os.path.join(V, "build", "dep_w%d" % wid)
    p = subprocess.run([sys.executable, "-c", WORKER % (V, UNITS)], env=env, capture_output=True, text=True)
    line = next((l for l in p.stdout.split("\n") if l.startswith("RESULT ")), None)
    return fn, k, tags, (json.loads(line[7:]) if line else [["?", "TOOL-ERROR", [], p.stderr[-300:]]])
if __name__ == "__main__":
    nw = int(sys.argv[1]) if len(sys.argv) > 1 else 4
    cl = clauses()
    only = sys.argv[2] if len(sys.argv) > 2 else None
    if only: cl = [c for c in cl if re.search(only, c[0])]
    print(len(cl), "clauses", flush=True)
    outp = os.path.join(V, "build", "dep_audit.json")
    res = json.load(open(outp)) if os.path.exists(outp) else {}
    import itertools, threading
    lock = threading.Lock(); free = list(range(nw))
    def job(c):
        key = "%s#%d" % (c[0], c[1])
        if key in res: return
        with lock: wid = free.pop()
        try: fn, k, tags, deps = run((c[0], c[1], c[2], wid))
        finally:
            with lock: free.append(wid)
        with lock:
            res[key] = {"clause": tags, "dependents": deps}
            json.dump(res, open(outp, "w"), indent=1)
            print(key, "[%s]" % tags, "->", len(deps), "dependents", flush=True)
    with concurrent.futures.ThreadPoolExecutor(max_workers=nw) as ex:
        list(ex.map(job, cl))
