#!/usr/bin/env python3
"""neutral/RESULTS.json (tools/eval_matrix.py --out) -> neutral/MATRIX.md"""
import json, os
V = os.path.dirname(os.path.dirname(os.path.abspath(__file__)))
d = json.load(open(os.path.join(V, "neutral", "RESULTS.json")))
props = sorted(k for k in next(iter(d.values())) if not k.endswith("_why"))
n = len(d)
quiet = sum(1 for r in d.values() if all(r[p] == 0 for p in props))
alarm = sum(1 for r in d.values() if any(r[p] == 1 for p in props))
und = n - quiet - alarm
out = ["# Behaviour-preserving refactorings x every claimed property (quick tier)", "",
       "%d refactorings, %d properties each.  All checks exit 0: **%d**; at least one UNDECIDED (exit 2), none alarming: **%d**; "
       "at least one VIOLATION (false alarm): **%d**." % (n, len(props), quiet, und, alarm), "",
       "0 = property held (exit 0), 2 = UNDECIDED (lost anchor / construct outside the Verus subset), 1 = VIOLATION (would be a false alarm).", "",
       "| refactoring | " + " | ".join(props) + " | first reason |", "|---|" + "---|" * (len(props) + 1)]
for name in sorted(d):
    r = d[name]
    why = next((r[p + "_why"] for p in props if r[p] != 0), "")
    out.append("| %s | %s | %s |" % (name.split("/")[0], " | ".join(str(r[p]) for p in props), why.replace("|", "\\|")[:160]))
open(os.path.join(V, "neutral", "MATRIX.md"), "w").write("\n".join(out) + "\n")
print(out[2])
