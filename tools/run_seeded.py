#!/usr/bin/env python3
"""Apply every seeded change to /repo in turn, run the quick check of its property, undo it, and
write seeded/RESULTS.json (which obligations fail).  /repo must be clean."""
import json, os, subprocess, sys, glob, re
V = os.path.dirname(os.path.dirname(os.path.abspath(__file__)))
only = sys.argv[1:]
REPO = os.environ.get("VERIF_REPO", "/repo")
res = {}
try:
    res = json.load(open(os.path.join(V, "seeded", "RESULTS.json")))
except Exception:
    pass
for d in sorted(glob.glob(os.path.join(V, "seeded", "*", "meta.json"))):
    meta = json.load(open(d))
    sid = meta["id"]
    if only and not any(o in sid for o in only): continue
    patch = os.path.join(os.path.dirname(d), "patch.diff")
    if subprocess.run(["git", "-C", REPO, "status", "--porcelain", "--untracked-files=no"], capture_output=True, text=True).stdout.strip():
        print("repo not clean"); sys.exit(3)
    if subprocess.run(["git", "-C", REPO, "apply", patch]).returncode != 0:
        res[sid] = {"exit": None, "note": "patch does not apply"}; continue
    try:
        p = subprocess.run([os.path.join(V, "check"), meta["property"], "--tier", "quick"], cwd=V, capture_output=True, text=True)
    finally:
        subprocess.run(["git", "-C", REPO, "checkout", "--", "."])
    lines = [l for l in p.stdout.split("\n") if re.search(r"VIOLATION|UNDECIDED|failed obligation|^OK|KNOWN", l)]
    res[sid] = {"property": meta["property"], "exit": p.returncode,
                "verdict": "detected" if p.returncode == 1 else ("undecided" if p.returncode == 2 else "missed"),
                "failed_obligations": [l.strip().replace("failed obligation: ", "") for l in lines if "failed obligation" in l][:8],
                "lines": [l for l in lines if "failed obligation" not in l][:4]}
    print(sid, res[sid]["verdict"], res[sid]["failed_obligations"][:2])
    json.dump(res, open(os.path.join(V, "seeded", "RESULTS.json"), "w"), indent=1)
