#!/bin/sh
# usage: confirm_mutant.sh <worktree> <k> [extra cargo test flags for the demo]
# confirms: patch applies, suite passes with it, demo fails with it, demo passes without it
WT="$1"; K="$2"; shift 2
cd "$WT" || exit 3
export CARGO_TARGET_DIR="$WT/target"
git checkout -q -- src; rm -rf tests
R="mutant_$K:"
git apply out/mutant_$K.diff || { echo "$R APPLY-FAILED"; exit 1; }
if cargo test --workspace --offline > out/confirm_suite_$K.log 2>&1; then R="$R suite=pass"; else R="$R suite=FAIL"; fi
mkdir -p tests; cp out/demo_$K.rs tests/demo_$K.rs
if cargo test --offline "$@" --test demo_$K > out/confirm_demo_mut_$K.log 2>&1; then R="$R demo_with_mutant=PASS(bad)"; else R="$R demo_with_mutant=fail"; fi
git checkout -q -- src
if cargo test --offline "$@" --test demo_$K > out/confirm_demo_orig_$K.log 2>&1; then R="$R demo_pristine=pass"; else R="$R demo_pristine=FAIL(bad)"; fi
rm -rf tests
echo "$R"
