#!/usr/bin/env python3
"""Run the bounded explorations (hunt, hunt_setops, hunt_views, c19_bounded) on every behaviour-preserving refactoring under neutral/:
every one of them must HOLD (the explorations are what turns an UNDECIDED verifier result into a VIOLATION, so they must never
fire on code that keeps the behaviour).  usage: VERIF_REPO=<scratch worktree> hunt_neutral.py"""
import os, sys, subprocess, glob, importlib.machinery, importlib.util
V = os.path.dirname(os.path.dirname(os.path.abspath(__file__)))
loader = importlib.machinery.SourceFileLoader("check_mod", os.path.join(V, "check"))
spec = importlib.util.spec_from_loader("check_mod", loader); chk = importlib.util.module_from_spec(spec); loader.exec_module(chk)
repo = os.environ["VERIF_REPO"]
os.environ.setdefault("VERIF_HUNT_DEPTH", "4")
bad = 0
for d in sorted(glob.glob(os.path.join(V, "neutral", os.environ.get("VERIF_NEUTRAL_GLOB", "*"), "patch.diff"))):
    subprocess.run(["git", "-C", repo, "checkout", "--", "."])
    if subprocess.run(["git", "-C", repo, "apply", d]).returncode != 0:
        print(d, "PATCH-DOES-NOT-APPLY"); continue
    rs = chk._run_scenarios("replay", "verif-replay", os.environ.get("VERIF_HUNT_SCEN", "hunt,hunt_setops,hunt_views,c19_bounded").split(","))
    st = {r["name"]: r["status"] for r in rs}
    if any(v != "holds" for v in st.values()): bad += 1
    print(os.path.basename(os.path.dirname(d)), st, [r["line"][:200] for r in rs if r["status"] != "holds"], flush=True)
subprocess.run(["git", "-C", repo, "checkout", "--", "."])
print("refactorings on which an exploration fired:", bad)
