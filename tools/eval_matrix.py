#!/usr/bin/env python3
"""Evaluate one change under EVERY claimed property (cross-property matrix).  usage: VERIF_REPO=<scratch worktree> eval_matrix.py <diff> [<diff> ...]
Uses the evaluation cache (VERIF_EVAL_CACHE) so that each Verus unit / Kani group / probe unit runs once per change, not once per property.
Output: one line per change: exit code per property."""
import os, subprocess, sys, re, json, shutil
V = os.path.dirname(os.path.dirname(os.path.abspath(__file__)))
repo = os.environ["VERIF_REPO"]
plan = json.load(open(os.path.join(V, "contracts", "plan.json")))
props = sorted(plan["properties"])
out = {}
args = sys.argv[1:]
outfile = os.path.join(V, "build", "eval_matrix_last.json")
if "--out" in args:
    k = args.index("--out"); outfile = args[k + 1]; del args[k:k + 2]
for diff in args:
    subprocess.run(["git", "-C", repo, "checkout", "--", "."])
    if diff != "UNCHANGED" and subprocess.run(["git", "-C", repo, "apply", diff]).returncode != 0:
        print("####", diff, "PATCH-DOES-NOT-APPLY", flush=True); continue
    cache = os.path.join(V, "build", "eval_cache")
    shutil.rmtree(cache, ignore_errors=True)
    env = dict(os.environ); env["VERIF_EVAL_CACHE"] = cache; env["VERIF_BUILD"] = os.path.join(V, "build", "matrix_build")
    row = {}
    for pid in props:
        p = subprocess.run([os.path.join(V, "check"), pid, "--tier", "quick"], cwd=V, capture_output=True, text=True, env=env)
        row[pid] = p.returncode
        first = next((l.strip() for l in p.stdout.split("\n") if "failed obligation" in l or "UNDECIDED" in l), "")
        row[pid + "_why"] = first[:200]
    subprocess.run(["git", "-C", repo, "checkout", "--", "."])
    name = os.path.basename(os.path.dirname(diff)) + "/" + os.path.basename(diff)
    out[name] = row
    print("####", name, " ".join("%s=%d" % (p, row[p]) for p in props), flush=True)
    for p in props:
        if row[p] != 0: print("      ", p, row[p + "_why"], flush=True)
    json.dump(out, open(outfile, "w"), indent=1)
json.dump(out, open(outfile, "w"), indent=1)
