#!/usr/bin/env python3
"""Post-process build/dep_audit.json (tools/dep_audit.py): every `ensures` clause must carry the property tags of every
obligation that is proved from it (transitively).  Prints the tags that are missing; with --apply rewrites the contract store.
A tag token is a property (`C01`) or a tag group (`SHAPE`, `FREE`, `COUNT`, `wf`, `CORE`)."""
import json, os, re, sys, glob
V = os.path.dirname(os.path.dirname(os.path.abspath(__file__)))
audit = json.load(open(os.path.join(V, "build", "dep_audit.json")))
plan = json.load(open(os.path.join(V, "contracts", "plan.json")))
groups = plan.get("tag_groups", {})
def toks(tags): return {t.split(".")[0] for t in tags if t}
def expand(ts):
    s = set()
    for t in ts: s |= set(groups.get(t, [t]))
    return s
# baseline failures (present without dropping anything): known findings etc.
BASE = {"C20.occ_handle_valid+C04.occ_handle_valid@OccupiedEntry::remove"}
# index: (fn short name, tag string) -> audit keys
byid = {}
for key, v in audit.items():
    fn = key.split("::", 1)[1].rsplit("#", 1)[0]
    byid.setdefault((fn, "+".join(t.strip() for t in v["clause"].split(",") if t.strip())), []).append(key)
cur = {key: toks([t.strip() for t in v["clause"].split(",")]) for key, v in audit.items()}
orig = {k: set(v) for k, v in cur.items()}
problems = []
changed = True
while changed:
    changed = False
    for key, v in audit.items():
        for unit, cid, tags, msg in v["dependents"]:
            if cid in BASE: continue
            if cid.startswith("STATUS:"):
                if (key, cid) not in problems: problems.append((key, cid))
                continue
            add = toks(tags)
            # transitive: the dependent is itself an ensures clause of a function under contract
            m = re.match(r"(.+)@([^#]+)$", cid)
            if m:
                for k2 in byid.get((m.group(2), m.group(1)), []):
                    add |= cur[k2]
            # do not add what the clause already implies through a group
            new = {t for t in add if not (expand({t}) <= expand(cur[key]))}
            if new:
                cur[key] |= new; changed = True
missing = {k: sorted(cur[k] - orig[k]) for k in cur if cur[k] - orig[k]}
# --allow <json>: hand-reviewed subset {key: [tokens]} (the audit over-approximates where one clause of a caller is a
# conjunction that mixes properties; those suggestions are not applied)
if "--allow" in sys.argv:
    allow = json.load(open(sys.argv[sys.argv.index("--allow") + 1]))
    skipped = {k: v for k, v in missing.items() if k not in allow}
    missing = {k: [t for t in allow[k]] for k in allow}
    print("NOT applied (reviewed, judged over-approximation):")
    for k in sorted(skipped): print("   ", k, skipped[k])
for k in sorted(missing):
    print("%-70s has [%s]  add %s" % (k, ",".join(sorted(orig[k])), missing[k]))
print(len(missing), "clauses lack tags;", len(problems), "experiments undecided:", problems[:10])
if "--apply" in sys.argv:
    files = sorted(glob.glob(os.path.join(V, "contracts", "*.fns"))) + [os.path.join(V, "contracts", "core.inc")]
    n = 0
    for f in files:
        lines = open(f).read().split("\n")
        curfn = None; k = 0
        for i, line in enumerate(lines):
            if line.startswith("=== fn "):
                curfn = line.split()[2] + "::" + line.split()[3]; k = 0
            elif line.startswith("=== "):
                curfn = None
            if curfn and line.startswith("ensures"):
                key = "%s#%d" % (curfn, k); k += 1
                if key in missing:
                    m = re.match(r"ensures\s*\[([^\]]*)\](.*)$", line)
                    if not m: continue
                    tags = [t.strip() for t in m.group(1).split(",") if t.strip()]
                    sfx = tags[0].split(".", 1)[1] if "." in tags[0] else "dep"
                    tags += ["%s.%s" % (t, sfx) for t in missing[key]]
                    lines[i] = "ensures [%s]%s" % (",".join(tags), m.group(2)); n += 1
        open(f, "w").write("\n".join(lines))
    print("applied to", n, "clauses")
