#!/usr/bin/env python3
"""store_round.py <round> <ID>...   copy confirmed mutants from /tmp/wt<round>_<ID>/out into /verif/seeded/<ID>-r<round>-m<k>/"""
import json, os, shutil, re, sys
rnd = sys.argv[1]
for ID in sys.argv[2:]:
    wt = "/tmp/wt%s_%s/out" % (rnd, ID)
    rep = open(wt + "/REPORT.txt").read()
    for k in (1, 2, 3):
        d = "/verif/seeded/%s-r%s-m%d" % (ID, rnd, k)
        os.makedirs(d, exist_ok=True)
        shutil.copy(wt + "/mutant_%d.diff" % k, d + "/patch.diff")
        shutil.copy(wt + "/demo_%d.rs" % k, d + "/demo.rs")
        m = re.search(r"(?is)(mutant[ _]*%d\b.*?)(?=\n[=\-#]*\s*\n?\s*mutant[ _]*%d\b|\Z)" % (k, k + 1), rep)
        exc = (m.group(1) if m else rep)[:1800]
        meta = {"id": "%s-r%s-m%d" % (ID, rnd, k), "property": ID, "change": exc.split("\n")[0][:300], "report_excerpt": exc,
                "origin": "independent sub-agent (round %s) given only the property text and a scratch worktree" % rnd,
                "confirmed": {"by": "tools/confirm_mutant.sh in the scratch worktree",
                              "result": "mutant_%d: suite=pass demo_with_mutant=fail demo_pristine=pass" % k,
                              "demo_cmd": "cp demo.rs <worktree>/tests/demo.rs && cargo test --offline --test demo"}}
        json.dump(meta, open(d + "/meta.json", "w"), indent=1)
print("stored")
