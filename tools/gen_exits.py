#!/usr/bin/env python3
"""Record, for every function under contract that has a hint placed at its end / after or at the end of a loop, how many `return`
and `break` it has on the UNCHANGED tree -> contracts/exits.json (read by the extractor's exit-structure guard)."""
import os, sys, json, glob
os.environ["VERIF_GEN_EXITS"] = "1"
V = os.path.dirname(os.path.dirname(os.path.abspath(__file__)))
sys.path.insert(0, os.path.join(V, "extract"))
import extractor
for spec in sorted(glob.glob(os.path.join(V, "contracts", "*.spec"))):
    extractor.assemble(spec)
json.dump(dict(sorted(extractor._EXITS_SEEN.items())), open(os.path.join(V, "contracts", "exits.json"), "w"), indent=1)
print(len(extractor._EXITS_SEEN), "functions recorded")
