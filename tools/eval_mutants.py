#!/usr/bin/env python3
"""Evaluate candidate mutants against a COPY of the repository (env VERIF_REPO), so that /repo stays untouched.
usage: eval_mutants.py <PROP>:<diff> ...      (Verus units honour VERIF_REPO; Kani / replay parts still build /repo)"""
import os, subprocess, sys, re
V = os.path.dirname(os.path.dirname(os.path.abspath(__file__)))
repo = os.environ["VERIF_REPO"]
for arg in sys.argv[1:]:
    prop, diff = arg.split(":", 1)
    subprocess.run(["git", "-C", repo, "checkout", "--", "."])
    if subprocess.run(["git", "-C", repo, "apply", diff]).returncode != 0:
        print("####", prop, diff, "PATCH-DOES-NOT-APPLY", flush=True); continue
    p = subprocess.run([os.path.join(V, "check"), prop, "--tier", "quick"], cwd=V, capture_output=True, text=True)
    subprocess.run(["git", "-C", repo, "checkout", "--", "."])
    lines = [l.strip() for l in p.stdout.split("\n") if re.search(r"VIOLATION|UNDECIDED|failed obligation|^OK", l)]
    print("####", prop, os.path.basename(os.path.dirname(os.path.dirname(diff))) + "/" + os.path.basename(diff), "exit=%d" % p.returncode, flush=True)
    for l in lines[:6]: print("    ", l[:260], flush=True)
