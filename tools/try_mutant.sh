#!/bin/sh
# usage: try_mutant.sh <patch.diff> <PROP> [<PROP>...]   -- applies the patch to /repo, runs the quick checks, reverts
set -u
P="$1"; shift
cd /repo || exit 3
if [ -n "$(git status --porcelain --untracked-files=no)" ]; then echo "repo not clean"; exit 3; fi
git apply "$P" || { echo "patch does not apply"; exit 3; }
for prop in "$@"; do
  (cd /verif && ./check "$prop" --tier quick > /tmp/try_mutant.out 2>&1; echo "== $prop exit=$?"; grep -E "VIOLATION|UNDECIDED|KNOWN|failed obligation|^OK" /tmp/try_mutant.out | head -8)
done
git checkout -- . 
