use num_traits::{PrimInt, Unsigned, Zero, CheckedShr};
use prefix_trie::Prefix;

/// closed form of the top-`len`-bits mask, written without reference to src/prefix.rs
fn top<R: PrimInt + Unsigned>(len: u8) -> R {
    let w = R::zero().count_zeros();
    if len == 0 {
        R::zero()
    } else if (len as u32) >= w {
        !R::zero()
    } else {
        (!R::zero()) << ((w - len as u32) as usize)
    }
}

fn width<R: PrimInt>() -> u32 {
    R::zero().count_zeros()
}

/// bit i (0 = most significant) of x, false beyond the width
fn bit<R: PrimInt + Unsigned>(x: R, i: u32) -> bool {
    let w = width::<R>();
    if i >= w {
        false
    } else {
        (x >> ((w - 1 - i) as usize)) & R::one() == R::one()
    }
}

pub trait Mk: Prefix {
    /// build a prefix from an arbitrary representation; host bits are kept if the type can hold them
    fn mk(repr: Self::R, len: u8) -> Self;
    /// does this type retain host bits?
    const KEEPS_HOST: bool;
}

impl<R> Mk for (R, u8)
where
    R: Unsigned + PrimInt + Zero + CheckedShr + std::fmt::Debug,
{
    fn mk(repr: R, len: u8) -> Self { (repr, len) }
    const KEEPS_HOST: bool = true;
}
impl Mk for ipnet::Ipv4Net {
    fn mk(repr: u32, len: u8) -> Self { ipnet::Ipv4Net::new(repr.into(), len).unwrap() }
    const KEEPS_HOST: bool = true;
}
impl Mk for ipnet::Ipv6Net {
    fn mk(repr: u128, len: u8) -> Self { ipnet::Ipv6Net::new(repr.into(), len).unwrap() }
    const KEEPS_HOST: bool = true;
}
impl Mk for ipnetwork::Ipv4Network {
    fn mk(repr: u32, len: u8) -> Self { ipnetwork::Ipv4Network::new(repr.into(), len).unwrap() }
    const KEEPS_HOST: bool = true;
}
impl Mk for ipnetwork::Ipv6Network {
    fn mk(repr: u128, len: u8) -> Self { ipnetwork::Ipv6Network::new(repr.into(), len).unwrap() }
    const KEEPS_HOST: bool = true;
}
impl Mk for cidr::Ipv4Cidr {
    fn mk(repr: u32, len: u8) -> Self { cidr::Ipv4Cidr::new((repr & top::<u32>(len)).into(), len).unwrap() }
    const KEEPS_HOST: bool = false;
}
impl Mk for cidr::Ipv6Cidr {
    fn mk(repr: u128, len: u8) -> Self { cidr::Ipv6Cidr::new((repr & top::<u128>(len)).into(), len).unwrap() }
    const KEEPS_HOST: bool = false;
}
impl Mk for cidr::Ipv4Inet {
    fn mk(repr: u32, len: u8) -> Self { cidr::Ipv4Inet::new(repr.into(), len).unwrap() }
    const KEEPS_HOST: bool = true;
}
impl Mk for cidr::Ipv6Inet {
    fn mk(repr: u128, len: u8) -> Self { cidr::Ipv6Inet::new(repr.into(), len).unwrap() }
    const KEEPS_HOST: bool = true;
}

fn any_prefix<P: Mk>() -> (P, P::R, u8)
where
    P::R: kani::Arbitrary,
{
    let r: P::R = kani::any();
    let l: u8 = kani::any();
    kani::assume((l as u32) <= width::<P::R>());
    (P::mk(r, l), r, l)
}

// ---------------------------------------------------------------------------------------------
// generic harness bodies

/// mask(), prefix_len(), repr(), eq, from_repr_len, zero
pub fn h_basic<P: Mk>()
where
    P::R: kani::Arbitrary + std::fmt::Debug,
{
    let (a, ra, la) = any_prefix::<P>();
    let (b, _rb, lb) = any_prefix::<P>();
    kani::cover!(la == 0);
    kani::cover!(la as u32 == width::<P::R>());
    assert!(a.prefix_len() == la);
    assert!(a.mask() == ra & top::<P::R>(la));
    if P::KEEPS_HOST {
        assert!(a.repr() == ra);
    }
    // eq compares network part and length only
    assert!(a.eq(&b) == (a.mask() == b.mask() && la == lb));
    // from_repr_len
    let f = P::from_repr_len(ra & top::<P::R>(la), la);
    assert!(f.prefix_len() == la);
    assert!(f.mask() == ra & top::<P::R>(la));
    assert!(f.eq(&a));
    // zero
    let z = P::zero();
    assert!(z.prefix_len() == 0);
    assert!(z.mask() == P::R::zero());
    assert!(z.contains(&a));
}

/// from_repr_len with host bits set (only for the types whose constructor accepts them)
pub fn h_from_repr_host<P: Mk>()
where
    P::R: kani::Arbitrary + std::fmt::Debug,
{
    let r: P::R = kani::any();
    let l: u8 = kani::any();
    kani::assume((l as u32) <= width::<P::R>());
    let f = P::from_repr_len(r, l);
    assert!(f.prefix_len() == l);
    assert!(f.mask() == r & top::<P::R>(l));
}

/// contains == bitwise coverage of the network parts
pub fn h_contains<P: Mk>()
where
    P::R: kani::Arbitrary + std::fmt::Debug,
{
    let (a, _ra, la) = any_prefix::<P>();
    let (b, _rb, lb) = any_prefix::<P>();
    let c = a.contains(&b);
    let closed = la <= lb && (b.mask() & top::<P::R>(la)) == a.mask();
    kani::cover!(c && la < lb);
    kani::cover!(!c && la < lb);
    assert!(c == closed);
    // bit view, => direction with a symbolic index
    let i: u8 = kani::any();
    if c && i < la {
        assert!(bit(a.mask(), i as u32) == bit(b.mask(), i as u32));
    }
    // bit view, <= direction with the witness
    if !c && la <= lb {
        let d = ((b.mask() & top::<P::R>(la)) ^ a.mask()).leading_zeros();
        assert!(d < la as u32);
        assert!(bit(a.mask(), d) != bit(b.mask(), d));
    }
    // reflexive, antisymmetric up to host bits
    assert!(a.contains(&a));
    if c && b.contains(&a) {
        assert!(a.eq(&b));
    }
}

pub fn h_contains_trans<P: Mk>()
where
    P::R: kani::Arbitrary + std::fmt::Debug,
{
    let (a, _, _) = any_prefix::<P>();
    let (b, _, _) = any_prefix::<P>();
    let (c, _, _) = any_prefix::<P>();
    if a.contains(&b) && b.contains(&c) {
        assert!(a.contains(&c));
    }
}

pub fn h_lcp<P: Mk>()
where
    P::R: kani::Arbitrary + std::fmt::Debug,
{
    let (a, _ra, la) = any_prefix::<P>();
    let (b, _rb, lb) = any_prefix::<P>();
    let p = a.longest_common_prefix(&b);
    let q = b.longest_common_prefix(&a);
    let eqbits = (a.mask() ^ b.mask()).leading_zeros();
    let want = (la as u32).min(lb as u32).min(eqbits);
    kani::cover!(want < la as u32 && want < lb as u32);
    assert!(p.prefix_len() as u32 == want);
    assert!(p.mask() == a.mask() & top::<P::R>(want as u8));
    // zeroed host part
    assert!(p.repr() == p.mask());
    assert!(p.contains(&a));
    assert!(p.contains(&b));
    assert!(p.eq(&q));
    // the form used by the Verus trait contract
    let lp = p.prefix_len();
    assert!(lp == la || lp == lb || bit(a.mask(), lp as u32) != bit(b.mask(), lp as u32));
}

pub fn h_is_bit_set<P: Mk>()
where
    P::R: kani::Arbitrary + std::fmt::Debug,
{
    let (a, _ra, la) = any_prefix::<P>();
    let i: u8 = kani::any();
    kani::cover!(i == 255);
    kani::cover!(i as u32 == width::<P::R>());
    let s = a.is_bit_set(i);
    assert!(s == (i < la && bit(a.mask(), i as u32)));
}

/// the two ordering facts the Verus trait contract assumes about `mask()` (lemma_mask_order)
pub fn h_mask_order<P: Mk>()
where
    P::R: kani::Arbitrary + std::fmt::Debug,
{
    let (a, _ra, la) = any_prefix::<P>();
    let (b, _rb, lb) = any_prefix::<P>();
    let ma = a.mask();
    let mb = b.mask();
    let d = (ma ^ mb).leading_zeros();
    if la == lb {
        // equal length: integer order == lexicographic order of the bit strings
        assert!((ma == mb) == a.eq(&b));
        if ma != mb {
            assert!(d < la as u32);
            assert!((ma < mb) == bit(mb, d));
            assert!(bit(ma, d) != bit(mb, d));
        }
    }
    if !a.contains(&b) && !b.contains(&a) {
        assert!(d < la as u32 && d < lb as u32);
        assert!((ma < mb) == (!bit(ma, d) && bit(mb, d)));
    }
}

/// host bits never influence any operation (C18 a)
pub fn h_host_bits<P: Mk>()
where
    P::R: kani::Arbitrary + std::fmt::Debug,
{
    let (a, ra, la) = any_prefix::<P>();
    let h: P::R = kani::any();
    // a2: same network part, different host bits
    let a2 = P::mk((ra & top::<P::R>(la)) | (h & !top::<P::R>(la)), la);
    let (b, _rb, _lb) = any_prefix::<P>();
    let i: u8 = kani::any();
    assert!(a.eq(&a2));
    assert!(a.mask() == a2.mask());
    assert!(a.contains(&b) == a2.contains(&b));
    assert!(b.contains(&a) == b.contains(&a2));
    assert!(a.is_bit_set(i) == a2.is_bit_set(i));
    assert!(a.longest_common_prefix(&b).eq(&a2.longest_common_prefix(&b)));
    assert!(b.longest_common_prefix(&a).eq(&b.longest_common_prefix(&a2)));
}

macro_rules! harnesses {
    ($modname:ident, $ty:ty, host_from_repr = $hf:expr) => {
        mod $modname {
            use super::*;
            #[kani::proof] fn basic() { h_basic::<$ty>() }
            #[kani::proof] fn contains() { h_contains::<$ty>() }
            #[kani::proof] fn contains_trans() { h_contains_trans::<$ty>() }
            #[kani::proof] fn lcp() { h_lcp::<$ty>() }
            #[kani::proof] fn is_bit_set() { h_is_bit_set::<$ty>() }
            #[kani::proof] fn mask_order() { h_mask_order::<$ty>() }
            #[kani::proof] fn host_bits() { h_host_bits::<$ty>() }
            #[kani::proof] fn from_repr_host() { if $hf { h_from_repr_host::<$ty>() } }
        }
    };
}

harnesses!(k_u8, (u8, u8), host_from_repr = true);
harnesses!(k_u16, (u16, u8), host_from_repr = true);
harnesses!(k_u32, (u32, u8), host_from_repr = true);
harnesses!(k_u64, (u64, u8), host_from_repr = true);
harnesses!(k_u128, (u128, u8), host_from_repr = true);
harnesses!(k_usize, (usize, u8), host_from_repr = true);
harnesses!(k_ipv4net, ipnet::Ipv4Net, host_from_repr = true);
harnesses!(k_ipv6net, ipnet::Ipv6Net, host_from_repr = true);
harnesses!(k_ipv4network, ipnetwork::Ipv4Network, host_from_repr = true);
harnesses!(k_ipv6network, ipnetwork::Ipv6Network, host_from_repr = true);
harnesses!(k_ipv4cidr, cidr::Ipv4Cidr, host_from_repr = true);
harnesses!(k_ipv6cidr, cidr::Ipv6Cidr, host_from_repr = true);
harnesses!(k_ipv4inet, cidr::Ipv4Inet, host_from_repr = true);
harnesses!(k_ipv6inet, cidr::Ipv6Inet, host_from_repr = true);
