use num_traits::{PrimInt, Unsigned, Zero, CheckedShr};
use prefix_trie::Prefix;

// ---------------------------------------------------------------------------------------------
// source of inputs: under Kani every value is symbolic (kani::any); in the native replay binary
// (src/replay_main.rs) the values come from the byte vectors of a Kani concrete-playback
// counterexample, in the order of the kani::any() calls.
#[cfg(kani)]
pub mod sym {
    pub fn assume(c: bool) { kani::assume(c) }
    macro_rules! sym_cover { ($e:expr) => { kani::cover!($e) }; }
    pub(crate) use sym_cover;
    pub trait AnyR: Sized { fn any() -> Self; }
    impl<T: kani::Arbitrary> AnyR for T { fn any() -> Self { kani::any() } }
}
#[cfg(not(kani))]
pub mod sym {
    use std::cell::RefCell;
    use std::collections::VecDeque;
    thread_local! { pub static INPUT: RefCell<VecDeque<Vec<u8>>> = RefCell::new(VecDeque::new()); }
    pub fn feed(vals: Vec<Vec<u8>>) { INPUT.with(|q| *q.borrow_mut() = vals.into()); }
    fn next(n: usize) -> Vec<u8> {
        let mut v = INPUT.with(|q| q.borrow_mut().pop_front()).unwrap_or_default();
        v.resize(n, 0);
        v
    }
    pub fn assume(c: bool) { if !c { println!("OUTSIDE-PRECONDITION: the replayed values violate a harness assumption"); std::process::exit(3); } }
    macro_rules! sym_cover { ($e:expr) => { let _ = $e; }; }
    pub(crate) use sym_cover;
    pub trait AnyR: Sized { fn any() -> Self; }
    macro_rules! anyr { ($($t:ty),*) => { $(impl AnyR for $t { fn any() -> Self { let b = next(std::mem::size_of::<$t>()); <$t>::from_le_bytes(b.try_into().unwrap()) } })* }; }
    anyr!(u8, u16, u32, u64, u128, usize);
}
use sym::{AnyR, sym_cover};

/// closed form of the top-`len`-bits mask, written without reference to src/prefix.rs
fn top<R: PrimInt + Unsigned>(len: u8) -> R {
    let w = R::zero().count_zeros();
    if len == 0 {
        R::zero()
    } else if (len as u32) >= w {
        !R::zero()
    } else {
        (!R::zero()) << ((w - len as u32) as usize)
    }
}

fn width<R: PrimInt>() -> u32 {
    R::zero().count_zeros()
}

/// bit i (0 = most significant) of x, false beyond the width
fn bit<R: PrimInt + Unsigned>(x: R, i: u32) -> bool {
    let w = width::<R>();
    if i >= w {
        false
    } else {
        (x >> ((w - 1 - i) as usize)) & R::one() == R::one()
    }
}

pub trait Mk: Prefix {
    /// build a prefix from an arbitrary representation; host bits are kept if the type can hold them
    fn mk(repr: Self::R, len: u8) -> Self;
    /// does this type retain host bits?
    const KEEPS_HOST: bool;
}

impl<R> Mk for (R, u8)
where
    R: Unsigned + PrimInt + Zero + CheckedShr + std::fmt::Debug,
{
    fn mk(repr: R, len: u8) -> Self { (repr, len) }
    const KEEPS_HOST: bool = true;
}
impl Mk for ipnet::Ipv4Net {
    fn mk(repr: u32, len: u8) -> Self { ipnet::Ipv4Net::new(repr.into(), len).unwrap() }
    const KEEPS_HOST: bool = true;
}
impl Mk for ipnet::Ipv6Net {
    fn mk(repr: u128, len: u8) -> Self { ipnet::Ipv6Net::new(repr.into(), len).unwrap() }
    const KEEPS_HOST: bool = true;
}
impl Mk for ipnetwork::Ipv4Network {
    fn mk(repr: u32, len: u8) -> Self { ipnetwork::Ipv4Network::new(repr.into(), len).unwrap() }
    const KEEPS_HOST: bool = true;
}
impl Mk for ipnetwork::Ipv6Network {
    fn mk(repr: u128, len: u8) -> Self { ipnetwork::Ipv6Network::new(repr.into(), len).unwrap() }
    const KEEPS_HOST: bool = true;
}
impl Mk for cidr::Ipv4Cidr {
    fn mk(repr: u32, len: u8) -> Self { cidr::Ipv4Cidr::new((repr & top::<u32>(len)).into(), len).unwrap() }
    const KEEPS_HOST: bool = false;
}
impl Mk for cidr::Ipv6Cidr {
    fn mk(repr: u128, len: u8) -> Self { cidr::Ipv6Cidr::new((repr & top::<u128>(len)).into(), len).unwrap() }
    const KEEPS_HOST: bool = false;
}
impl Mk for cidr::Ipv4Inet {
    fn mk(repr: u32, len: u8) -> Self { cidr::Ipv4Inet::new(repr.into(), len).unwrap() }
    const KEEPS_HOST: bool = true;
}
impl Mk for cidr::Ipv6Inet {
    fn mk(repr: u128, len: u8) -> Self { cidr::Ipv6Inet::new(repr.into(), len).unwrap() }
    const KEEPS_HOST: bool = true;
}

fn any_prefix<P: Mk>() -> (P, P::R, u8)
where
    P::R: AnyR,
{
    let r: P::R = AnyR::any();
    let l: u8 = AnyR::any();
    sym::assume((l as u32) <= width::<P::R>());
    (P::mk(r, l), r, l)
}

// ---------------------------------------------------------------------------------------------
// generic harness bodies

/// mask(), prefix_len(), repr(), eq, from_repr_len, zero
pub fn h_basic<P: Mk>()
where
    P::R: AnyR + std::fmt::Debug,
{
    let (a, ra, la) = any_prefix::<P>();
    let (b, _rb, lb) = any_prefix::<P>();
    sym_cover!(la == 0);
    sym_cover!(la as u32 == width::<P::R>());
    assert!(a.prefix_len() == la);
    assert!(a.mask() == ra & top::<P::R>(la));
    if P::KEEPS_HOST {
        assert!(a.repr() == ra);
    }
    // eq compares network part and length only
    assert!(a.eq(&b) == (a.mask() == b.mask() && la == lb));
    // from_repr_len
    let f = P::from_repr_len(ra & top::<P::R>(la), la);
    assert!(f.prefix_len() == la);
    assert!(f.mask() == ra & top::<P::R>(la));
    assert!(f.eq(&a));
    // zero
    let z = P::zero();
    assert!(z.prefix_len() == 0);
    assert!(z.mask() == P::R::zero());
    assert!(z.contains(&a));
}

/// from_repr_len with host bits set (only for the types whose constructor accepts them)
pub fn h_from_repr_host<P: Mk>()
where
    P::R: AnyR + std::fmt::Debug,
{
    let r: P::R = AnyR::any();
    let l: u8 = AnyR::any();
    sym::assume((l as u32) <= width::<P::R>());
    let f = P::from_repr_len(r, l);
    assert!(f.prefix_len() == l);
    assert!(f.mask() == r & top::<P::R>(l));
}

/// contains == bitwise coverage of the network parts
pub fn h_contains<P: Mk>()
where
    P::R: AnyR + std::fmt::Debug,
{
    let (a, _ra, la) = any_prefix::<P>();
    let (b, _rb, lb) = any_prefix::<P>();
    let c = a.contains(&b);
    let closed = la <= lb && (b.mask() & top::<P::R>(la)) == a.mask();
    sym_cover!(c && la < lb);
    sym_cover!(!c && la < lb);
    assert!(c == closed);
    // bit view, => direction with a symbolic index
    let i: u8 = AnyR::any();
    if c && i < la {
        assert!(bit(a.mask(), i as u32) == bit(b.mask(), i as u32));
    }
    // bit view, <= direction with the witness
    if !c && la <= lb {
        let d = ((b.mask() & top::<P::R>(la)) ^ a.mask()).leading_zeros();
        assert!(d < la as u32);
        assert!(bit(a.mask(), d) != bit(b.mask(), d));
    }
    // reflexive, antisymmetric up to host bits
    assert!(a.contains(&a));
    if c && b.contains(&a) {
        assert!(a.eq(&b));
    }
}

pub fn h_contains_trans<P: Mk>()
where
    P::R: AnyR + std::fmt::Debug,
{
    let (a, _, _) = any_prefix::<P>();
    let (b, _, _) = any_prefix::<P>();
    let (c, _, _) = any_prefix::<P>();
    if a.contains(&b) && b.contains(&c) {
        assert!(a.contains(&c));
    }
}

pub fn h_lcp<P: Mk>()
where
    P::R: AnyR + std::fmt::Debug,
{
    let (a, _ra, la) = any_prefix::<P>();
    let (b, _rb, lb) = any_prefix::<P>();
    let p = a.longest_common_prefix(&b);
    let q = b.longest_common_prefix(&a);
    let eqbits = (a.mask() ^ b.mask()).leading_zeros();
    let want = (la as u32).min(lb as u32).min(eqbits);
    sym_cover!(want < la as u32 && want < lb as u32);
    assert!(p.prefix_len() as u32 == want);
    assert!(p.mask() == a.mask() & top::<P::R>(want as u8));
    // zeroed host part
    assert!(p.repr() == p.mask());
    assert!(p.contains(&a));
    assert!(p.contains(&b));
    assert!(p.eq(&q));
    // the form used by the Verus trait contract
    let lp = p.prefix_len();
    assert!(lp == la || lp == lb || bit(a.mask(), lp as u32) != bit(b.mask(), lp as u32));
}

pub fn h_is_bit_set<P: Mk>()
where
    P::R: AnyR + std::fmt::Debug,
{
    let (a, _ra, la) = any_prefix::<P>();
    let i: u8 = AnyR::any();
    sym_cover!(i == 255);
    sym_cover!(i as u32 == width::<P::R>());
    let s = a.is_bit_set(i);
    assert!(s == (i < la && bit(a.mask(), i as u32)));
}

/// the two ordering facts the Verus trait contract assumes about `mask()` (lemma_mask_order)
pub fn h_mask_order<P: Mk>()
where
    P::R: AnyR + std::fmt::Debug,
{
    let (a, _ra, la) = any_prefix::<P>();
    let (b, _rb, lb) = any_prefix::<P>();
    let ma = a.mask();
    let mb = b.mask();
    let d = (ma ^ mb).leading_zeros();
    if la == lb {
        // equal length: integer order == lexicographic order of the bit strings
        assert!((ma == mb) == a.eq(&b));
        if ma != mb {
            assert!(d < la as u32);
            assert!((ma < mb) == bit(mb, d));
            assert!(bit(ma, d) != bit(mb, d));
        }
    }
    if !a.contains(&b) && !b.contains(&a) {
        assert!(d < la as u32 && d < lb as u32);
        assert!((ma < mb) == (!bit(ma, d) && bit(mb, d)));
    }
}

/// host bits never influence any operation (C18 a)
pub fn h_host_bits<P: Mk>()
where
    P::R: AnyR + std::fmt::Debug,
{
    let (a, ra, la) = any_prefix::<P>();
    let h: P::R = AnyR::any();
    // a2: same network part, different host bits
    let a2 = P::mk((ra & top::<P::R>(la)) | (h & !top::<P::R>(la)), la);
    let (b, _rb, _lb) = any_prefix::<P>();
    let i: u8 = AnyR::any();
    assert!(a.eq(&a2));
    assert!(a.mask() == a2.mask());
    assert!(a.contains(&b) == a2.contains(&b));
    assert!(b.contains(&a) == b.contains(&a2));
    assert!(a.is_bit_set(i) == a2.is_bit_set(i));
    assert!(a.longest_common_prefix(&b).eq(&a2.longest_common_prefix(&b)));
    assert!(b.longest_common_prefix(&a).eq(&b.longest_common_prefix(&a2)));
}

macro_rules! harnesses {
    ($modname:ident, $ty:ty, host_from_repr = $hf:expr) => {
        pub mod $modname {
            use super::*;
            #[cfg_attr(kani, kani::proof)] pub fn basic() { h_basic::<$ty>() }
            #[cfg_attr(kani, kani::proof)] pub fn contains() { h_contains::<$ty>() }
            #[cfg_attr(kani, kani::proof)] pub fn contains_trans() { h_contains_trans::<$ty>() }
            #[cfg_attr(kani, kani::proof)] pub fn lcp() { h_lcp::<$ty>() }
            #[cfg_attr(kani, kani::proof)] pub fn is_bit_set() { h_is_bit_set::<$ty>() }
            #[cfg_attr(kani, kani::proof)] pub fn mask_order() { h_mask_order::<$ty>() }
            #[cfg_attr(kani, kani::proof)] pub fn host_bits() { h_host_bits::<$ty>() }
            #[cfg_attr(kani, kani::proof)] pub fn from_repr_host() { if $hf { h_from_repr_host::<$ty>() } }
            /// native dispatch by harness name
            pub fn run(name: &str) -> bool {
                match name {
                    "basic" => basic(), "contains" => contains(), "contains_trans" => contains_trans(), "lcp" => lcp(),
                    "is_bit_set" => is_bit_set(), "mask_order" => mask_order(), "host_bits" => host_bits(),
                    "from_repr_host" => from_repr_host(), _ => return false,
                }
                true
            }
        }
    };
}

harnesses!(k_u8, (u8, u8), host_from_repr = true);
harnesses!(k_u16, (u16, u8), host_from_repr = true);
harnesses!(k_u32, (u32, u8), host_from_repr = true);
harnesses!(k_u64, (u64, u8), host_from_repr = true);
harnesses!(k_u128, (u128, u8), host_from_repr = true);
harnesses!(k_usize, (usize, u8), host_from_repr = true);
harnesses!(k_ipv4net, ipnet::Ipv4Net, host_from_repr = true);
harnesses!(k_ipv6net, ipnet::Ipv6Net, host_from_repr = true);
harnesses!(k_ipv4network, ipnetwork::Ipv4Network, host_from_repr = true);
harnesses!(k_ipv6network, ipnetwork::Ipv6Network, host_from_repr = true);
harnesses!(k_ipv4cidr, cidr::Ipv4Cidr, host_from_repr = true);
harnesses!(k_ipv6cidr, cidr::Ipv6Cidr, host_from_repr = true);
harnesses!(k_ipv4inet, cidr::Ipv4Inet, host_from_repr = true);
harnesses!(k_ipv6inet, cidr::Ipv6Inet, host_from_repr = true);

/// native dispatch: `algebra::k_u8::is_bit_set` -> run that harness body on the values fed through sym::feed
pub fn run_native(harness: &str) -> bool {
    let parts: Vec<&str> = harness.split("::").collect();
    let (m, h) = match parts.as_slice() { [.., m, h] => (*m, *h), _ => return false };
    match m {
        "k_u8" => k_u8::run(h), "k_u16" => k_u16::run(h), "k_u32" => k_u32::run(h), "k_u64" => k_u64::run(h),
        "k_u128" => k_u128::run(h), "k_usize" => k_usize::run(h),
        "k_ipv4net" => k_ipv4net::run(h), "k_ipv6net" => k_ipv6net::run(h),
        "k_ipv4network" => k_ipv4network::run(h), "k_ipv6network" => k_ipv6network::run(h),
        "k_ipv4cidr" => k_ipv4cidr::run(h), "k_ipv6cidr" => k_ipv6cidr::run(h),
        "k_ipv4inet" => k_ipv4inet::run(h), "k_ipv6inet" => k_ipv6inet::run(h),
        _ => false,
    }
}
