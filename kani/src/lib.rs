//! Layer K (DESIGN.md section 5/C17): loop-free Kani harnesses over the *real compiled crate*.
//! Every input is fully symbolic, there is no loop, so a successful harness is a complete proof
//! for that type (not a bounded check).  Each harness calls the real trait method and compares
//! with a closed form written here independently of src/prefix.rs.
#![allow(dead_code, unused_macros, unused_imports)]

pub mod algebra;
#[cfg(kani)]
mod bounded;
