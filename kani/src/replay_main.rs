//! Native replay of a Kani counterexample against the real crate: the harness body of src/algebra.rs is run on the
//! concrete values printed by `cargo kani --concrete-playback=print`.
//! usage: algebra-replay <harness, e.g. algebra::k_u8::is_bit_set> <v1> <v2> ...   (each value: comma separated little-endian bytes)
#[cfg(kani)]
fn main() {}

#[cfg(not(kani))]
fn main() {
    let args: Vec<String> = std::env::args().collect();
    if args.len() < 2 { eprintln!("usage: algebra-replay <harness> <bytes>..."); std::process::exit(2); }
    let vals: Vec<Vec<u8>> = args[2..].iter().map(|a| a.split(',').filter(|x| !x.is_empty()).map(|x| x.trim().parse::<u8>().expect("byte")).collect()).collect();
    verif_kani::algebra::sym::feed(vals.clone());
    let h = args[1].clone();
    let r = std::panic::catch_unwind(|| verif_kani::algebra::run_native(&h));
    match r {
        Ok(true) => { println!("HOLDS {} on {:?}", args[1], vals); }
        Ok(false) => { println!("UNKNOWN-HARNESS {}", args[1]); std::process::exit(2); }
        Err(e) => {
            let msg = e.downcast_ref::<String>().cloned().or_else(|| e.downcast_ref::<&str>().map(|s| s.to_string())).unwrap_or_default();
            println!("FAILS {} on {:?}: {}", args[1], vals, msg);
            std::process::exit(1);
        }
    }
}
