//! bounded stand-ins (never counted as proved), see C19
