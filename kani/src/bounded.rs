//! bounded stand-ins for C19 (NOT registered in groups.json / MANIFEST: measured 2026-09-28, `eq_1_1` and `clone_1`
//! each ran into the 25 min timeout at ~5 GB of CBMC memory - one symbolic insertion per operand is already too
//! much for the Vec-based arena; kept as the record of that negative result, see DESIGN.md 10.7)
#![allow(dead_code)]
#[cfg(kani)]
mod b19 {
    use prefix_trie::*;
    type P = (u8, u8);

    fn any_key(max_len: u8) -> P {
        let r: u8 = kani::any();
        let l: u8 = kani::any();
        kani::assume(l <= max_len);
        (r, l)
    }

    /// operands with at most one entry each: `==` holds exactly when the entry sequences are equal
    #[kani::proof]
    #[kani::unwind(10)]
    fn eq_1_1() {
        let mut a = PrefixMap::<P, u8>::new();
        let mut b = PrefixMap::<P, u8>::new();
        let ha: bool = kani::any();
        let hb: bool = kani::any();
        let ka = any_key(8);
        let kb = any_key(8);
        let va: u8 = kani::any();
        let vb: u8 = kani::any();
        if ha { a.insert(ka, va); }
        if hb { b.insert(kb, vb); }
        let same = ha == hb && (!ha || (ka == kb && va == vb));
        assert!((a == b) == same);
        assert!((b == a) == same);
        assert!(a == a);
        kani::cover!(ha && hb && a == b);
        kani::cover!(ha && !hb);
    }

    /// clone of a map with at most one entry is equal and independent
    #[kani::proof]
    #[kani::unwind(10)]
    fn clone_1() {
        let mut a = PrefixMap::<P, u8>::new();
        let ha: bool = kani::any();
        let ka = any_key(8);
        let va: u8 = kani::any();
        if ha { a.insert(ka, va); }
        let mut c = a.clone();
        assert!(a == c);
        let kc = any_key(8);
        c.insert(kc, 7);
        assert!(a.len() == if ha { 1 } else { 0 });
        assert!(a.get(&ka).copied() == if ha { Some(va) } else { None });
        kani::cover!(ha);
    }
}
