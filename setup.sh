#!/bin/sh
# offline setup: nothing to build ahead of time (Verus units are re-extracted per run; Kani compiles per run)
set -e
cd "$(dirname "$0")"
mkdir -p build evidence
chmod +x check
cp /repo/Cargo.lock kani/Cargo.lock 2>/dev/null || true
verus --version >/dev/null
echo setup ok
