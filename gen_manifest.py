#!/usr/bin/env python3
"""Regenerate MANIFEST.json from contracts/plan.json (claimed properties) and na.json (reasons for the rest)."""
import json, os
V = os.path.dirname(os.path.abspath(__file__))
plan = json.load(open(os.path.join(V, "contracts", "plan.json")))
na = json.load(open(os.path.join(V, "contracts", "na.json")))
props = [json.loads(l) for l in open(os.path.join(V, "properties.jsonl"))]
hooks = json.load(open(os.path.join(V, "contracts", "hooks.json")))
checks = []
for p in props:
    pid = p["id"]
    if pid in plan["properties"]:
        pp = plan["properties"][pid]
        checks.append({
            "property_id": pid,
            "quick_cmd": "./check %s --tier quick" % pid,
            "thorough_cmd": "./check %s --tier thorough" % pid,
            "evidence_file": "/verif/evidence/%s.json" % pid,
            "replay_cmd_template": "./check %s --replay {path}" % pid,
            "engine": "verus+kani" if pp.get("kani") and pp.get("units") else ("kani" if pp.get("kani") else "verus"),
            "level_claimed": {"category": pp.get("level", "proof"), "text": pp["text"], "design_ref": pp.get("design_ref", "")},
            "level_note": pp.get("note", ""),
            "technique": pp.get("technique", ""),
        })
m = {
    "version": 1,
    "setup_cmd": "./setup.sh",
    "hooks": hooks,
    "engines": [
        {"name": "verus", "path": "/verif/extract", "serves_properties": [c["property_id"] for c in checks if "verus" in c["engine"]],
         "kind_free_text": "mechanical extraction of real functions + spliced contracts, discharged by Verus/Z3 per function"},
        {"name": "kani", "path": "/verif/kani", "serves_properties": [c["property_id"] for c in checks if "kani" in c["engine"]],
         "kind_free_text": "Kani/CBMC harnesses on the real compiled crate (loop-free full-domain = proof; bounded ones labelled)"},
    ],
    "checks": checks,
    "notes": "contract-based deductive verification; see DESIGN.md",
    "not_applicable": [{"property_id": p["id"], "reason": na.get(p["id"], "check not built yet (implementation in progress; see DESIGN.md section 9)")}
                       for p in props if p["id"] not in plan["properties"]],
}
json.dump(m, open(os.path.join(V, "MANIFEST.json"), "w"), indent=1)
print("claimed:", [c["property_id"] for c in checks])
