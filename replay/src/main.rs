//! Native replay of concrete scenarios against the real crate (built with --cfg prefix_trie_verif).
//! `verif-replay <scenario>` exits 0 when the real crate behaves as the property demands and 1
//! (printing what was observed) when it does not.
use prefix_trie::*;

type P = (u8, u8);

fn arena<T>(m: &PrefixMap<P, T>) -> (usize, Vec<usize>, usize, Vec<(Option<usize>, Option<usize>, bool)>) {
    m.verif_arena()
}

/// every slot is either reachable from the root or on the free list, never both, never neither
fn partition_ok<T>(m: &PrefixMap<P, T>) -> Result<(), String> {
    let (n, free, _count, slots) = arena(m);
    let mut reach = vec![false; n];
    let mut stack = vec![0usize];
    while let Some(i) = stack.pop() {
        if reach[i] {
            return Err(format!("slot {i} reached twice"));
        }
        reach[i] = true;
        if let Some(l) = slots[i].0 { stack.push(l) }
        if let Some(r) = slots[i].1 { stack.push(r) }
    }
    for i in 0..n {
        let f = free.contains(&i);
        if reach[i] == f {
            return Err(format!("slot {i}: reachable={} free={} (arena len {n}, free {:?})", reach[i], f, free));
        }
    }
    Ok(())
}

fn c16_leak() -> Result<(), String> {
    // resident 0x00/3; cycle insert/remove of 0x20/3 (creates and collapses the branch 0x00/2)
    let mut m: PrefixMap<P, u8> = PrefixMap::new();
    m.insert((0x00, 3), 1);
    m.insert((0x20, 3), 2);
    m.remove(&(0x20, 3));
    partition_ok(&m)?;
    let base = arena(&m).0;
    for _ in 0..1000 {
        m.insert((0x20, 3), 2);
        m.remove(&(0x20, 3));
    }
    let now = arena(&m).0;
    if now > base {
        return Err(format!("arena grew from {base} to {now} slots over 1000 insert/remove cycles with len()=={}", m.len()));
    }
    Ok(())
}

fn c19_eq_prefix() -> Result<(), String> {
    let a: PrefixMap<P, u8> = PrefixMap::new();
    let mut b: PrefixMap<P, u8> = PrefixMap::new();
    b.insert((0x80, 1), 1);
    if a == b {
        return Err("PrefixMap::new() == {0x80/1 -> 1} evaluated to true".into());
    }
    let sa: PrefixSet<P> = PrefixSet::new();
    let mut sb: PrefixSet<P> = PrefixSet::new();
    sb.insert((0x80, 1));
    if sa == sb {
        return Err("PrefixSet::new() == {0x80/1} evaluated to true".into());
    }
    Ok(())
}

fn c04_entry_remove() -> Result<(), String> {
    let mut m: PrefixMap<P, u8> = PrefixMap::new();
    m.insert((0x80, 1), 1);
    if let map::Entry::Occupied(mut e) = m.entry((0x80, 1)) {
        e.remove();
    }
    if m.len() != m.iter().count() {
        return Err(format!("after OccupiedEntry::remove: len()={} iter().count()={}", m.len(), m.iter().count()));
    }
    Ok(())
}

fn c04_entry_remove_reinsert() -> Result<(), String> {
    // the OccupiedEntry handle survives remove(&mut self); re-wrapping it stores a value without counting it
    let mut m: PrefixMap<P, u8> = PrefixMap::new();
    m.insert((0x80, 1), 1);
    if let map::Entry::Occupied(mut e) = m.entry((0x80, 1)) {
        e.remove();
        map::Entry::Occupied(e).or_insert(7);
    }
    if m.len() != m.iter().count() {
        return Err(format!("after e.remove(); Entry::Occupied(e).or_insert(7): len()={} iter().count()={}", m.len(), m.iter().count()));
    }
    Ok(())
}

fn c04_view_remove() -> Result<(), String> {
    let mut m: PrefixMap<P, u8> = PrefixMap::new();
    m.insert((0x80, 1), 1);
    (&mut m).view_mut_at((0x80, 1)).unwrap().remove();
    if m.len() != m.iter().count() {
        return Err(format!("after TrieViewMut::remove: len()={} iter().count()={}", m.len(), m.iter().count()));
    }
    Ok(())
}

fn c04_view_set() -> Result<(), String> {
    let mut m: PrefixMap<P, u8> = PrefixMap::new();
    m.insert((0x80, 1), 1);
    m.remove_keep_tree(&(0x80, 1));
    let _ = (&mut m).view_mut_at((0x80, 1)).unwrap().set(5);
    if m.len() != m.iter().count() {
        return Err(format!("after TrieViewMut::set on a value-less node: len()={} iter().count()={}", m.len(), m.iter().count()));
    }
    Ok(())
}

fn c20_counter_underflow() -> Result<(), String> {
    let r = std::panic::catch_unwind(|| {
        let mut m: PrefixMap<P, u8> = PrefixMap::new();
        m.insert((0x80, 1), 1);
        m.remove_keep_tree(&(0x80, 1));
        let _ = (&mut m).view_mut_at((0x80, 1)).unwrap().set(5);
        m.remove(&(0x80, 1));
    });
    if r.is_err() {
        return Err("remove() after view set() on a value-less node panicked (counter underflow)".into());
    }
    Ok(())
}

fn c20_entry_remove_get() -> Result<(), String> {
    let r = std::panic::catch_unwind(|| {
        let mut m: PrefixMap<P, u8> = PrefixMap::new();
        m.insert((0x80, 1), 1);
        if let map::Entry::Occupied(mut e) = m.entry((0x80, 1)) {
            e.remove();
            let _ = e.get();
        }
    });
    if r.is_err() {
        return Err("OccupiedEntry::remove(); OccupiedEntry::get() panicked".into());
    }
    Ok(())
}

fn c08_lpm_seed() -> Result<(), String> {
    let mut a: PrefixMap<P, u8> = PrefixMap::new();
    a.insert((0x00, 2), 1);
    a.insert((0x00, 3), 2);
    let mut b: PrefixMap<P, u8> = PrefixMap::new();
    b.insert((0x80, 2), 3);
    b.insert((0x80, 3), 4);
    let va = a.view_at((0x00, 2)).unwrap();
    let vb = b.view_at((0x80, 2)).unwrap();
    for item in va.union(vb) {
        match item {
            trieview::UnionItem::Left { prefix, right: Some((rp, _)), .. } if !rp.contains(prefix) => {
                return Err(format!("union Left item {prefix:?} reports right LPM {rp:?} which does not cover it"));
            }
            trieview::UnionItem::Right { prefix, left: Some((lp, _)), .. } if !lp.contains(prefix) => {
                return Err(format!("union Right item {prefix:?} reports left LPM {lp:?} which does not cover it"));
            }
            _ => {}
        }
    }
    let va = a.view_at((0x00, 2)).unwrap();
    let vb = b.view_at((0x80, 2)).unwrap();
    for item in va.difference(vb) {
        if let Some((rp, _)) = item.right {
            if !rp.contains(item.prefix) {
                return Err(format!("difference item {:?} reports right LPM {rp:?} which does not cover it", item.prefix));
            }
        }
    }
    Ok(())
}

fn c12_find_relative() -> Result<(), String> {
    let mut m: PrefixMap<P, u8> = PrefixMap::new();
    m.insert((0x00, 2), 1);
    m.insert((0x00, 3), 2);
    m.insert((0x20, 3), 3);
    let v = m.view_at((0x00, 2)).unwrap();
    // q = 0x00/1 covers the view: find must address all three entries of v
    match v.find((0x00, 1)) {
        Some(f) => {
            let n = f.iter().count();
            if n != 3 {
                return Err(format!("view 0x00/2 of {{0x00/2,0x00/3,0x20/3}}: find(0x00/1) addresses {n} entries, expected 3"));
            }
        }
        None => return Err("find(0x00/1) returned None although the view has entries covered by it".into()),
    }
    // q = 0x80/1 is disjoint from the view: find_lpm must be None
    if let Some(f) = v.find_lpm(&(0x80, 1)) {
        return Err(format!("find_lpm(0x80/1) from view 0x00/2 returned {:?} which does not cover the query", f.prefix()));
    }
    Ok(())
}

fn c18_union_right_prefix() -> Result<(), String> {
    // left: branching node 0x00/1 without value; right: stores 0x00/1 under the representation (0x2a, 1)
    let mut a: PrefixMap<P, u8> = PrefixMap::new();
    a.insert((0x00, 2), 1);
    a.insert((0x40, 2), 2);
    let mut b: PrefixMap<P, u8> = PrefixMap::new();
    b.insert((0x2a, 1), 9);
    for item in a.view().union(&b) {
        if let trieview::UnionItem::Right { prefix, right, .. } = item {
            if *right == 9 && (prefix.0, prefix.1) != (0x2a, 1) {
                return Err(format!("union reports the entry stored only in the right map as ({:#x}, {}) instead of its stored representation (0x2a, 1)", prefix.0, prefix.1));
            }
        }
    }
    for (prefix, l, r) in a.view_mut().union_mut(&mut b) {
        if l.is_none() && r.is_some() && (prefix.0, prefix.1) != (0x2a, 1) {
            return Err(format!("union_mut reports the entry stored only in the right map as ({:#x}, {}) instead of its stored representation (0x2a, 1)", prefix.0, prefix.1));
        }
    }
    Ok(())
}

fn main() {
    let scen = std::env::args().nth(1).unwrap_or_default();
    let table: Vec<(&str, fn() -> Result<(), String>)> = vec![
        ("c16_leak", c16_leak),
        ("c19_eq_prefix", c19_eq_prefix),
        ("c04_entry_remove", c04_entry_remove),
        ("c04_entry_remove_reinsert", c04_entry_remove_reinsert),
        ("c04_view_remove", c04_view_remove),
        ("c04_view_set", c04_view_set),
        ("c20_counter_underflow", c20_counter_underflow),
        ("c20_entry_remove_get", c20_entry_remove_get),
        ("c08_lpm_seed", c08_lpm_seed),
        ("c12_find_relative", c12_find_relative),
        ("c18_union_right_prefix", c18_union_right_prefix),
    ];
    let mut bad = 0;
    for (name, f) in &table {
        if scen == "all" || scen == *name {
            match f() {
                Ok(()) => println!("HOLDS {name}"),
                Err(e) => {
                    println!("FAILS {name}: {e}");
                    bad += 1;
                }
            }
        }
    }
    std::process::exit(if bad > 0 { 1 } else { 0 });
}
