//! Native replay of concrete scenarios against the real crate (built with --cfg prefix_trie_verif).
//! `verif-replay <scenario>` exits 0 when the real crate behaves as the property demands and 1
//! (printing what was observed) when it does not.
use prefix_trie::*;

type P = (u8, u8);

fn arena<T>(m: &PrefixMap<P, T>) -> (usize, Vec<usize>, usize, Vec<(Option<usize>, Option<usize>, bool)>) {
    m.verif_arena()
}

/// every slot is either reachable from the root or on the free list, never both, never neither
fn partition_ok<T>(m: &PrefixMap<P, T>) -> Result<(), String> {
    let (n, free, _count, slots) = arena(m);
    let mut reach = vec![false; n];
    let mut stack = vec![0usize];
    while let Some(i) = stack.pop() {
        if reach[i] {
            return Err(format!("slot {i} reached twice"));
        }
        reach[i] = true;
        if let Some(l) = slots[i].0 { stack.push(l) }
        if let Some(r) = slots[i].1 { stack.push(r) }
    }
    for i in 0..n {
        let f = free.contains(&i);
        if reach[i] == f {
            return Err(format!("slot {i}: reachable={} free={} (arena len {n}, free {:?})", reach[i], f, free));
        }
    }
    Ok(())
}

fn c16_leak() -> Result<(), String> {
    // resident 0x00/3; cycle insert/remove of 0x20/3 (creates and collapses the branch 0x00/2)
    let mut m: PrefixMap<P, u8> = PrefixMap::new();
    m.insert((0x00, 3), 1);
    m.insert((0x20, 3), 2);
    m.remove(&(0x20, 3));
    partition_ok(&m)?;
    let base = arena(&m).0;
    for _ in 0..1000 {
        m.insert((0x20, 3), 2);
        m.remove(&(0x20, 3));
    }
    let now = arena(&m).0;
    if now > base {
        return Err(format!("arena grew from {base} to {now} slots over 1000 insert/remove cycles with len()=={}", m.len()));
    }
    Ok(())
}

fn c19_eq_prefix() -> Result<(), String> {
    let a: PrefixMap<P, u8> = PrefixMap::new();
    let mut b: PrefixMap<P, u8> = PrefixMap::new();
    b.insert((0x80, 1), 1);
    if a == b {
        return Err("PrefixMap::new() == {0x80/1 -> 1} evaluated to true".into());
    }
    let sa: PrefixSet<P> = PrefixSet::new();
    let mut sb: PrefixSet<P> = PrefixSet::new();
    sb.insert((0x80, 1));
    if sa == sb {
        return Err("PrefixSet::new() == {0x80/1} evaluated to true".into());
    }
    Ok(())
}

// ---------------------------------------------------------------------------------------------------------
// C19, BOUNDED stand-in (not a proof): exhaustive enumeration, by execution of the real crate, of every map over the
// 7 prefixes of length <= 2 of (u8,u8) with values in {0,1}, each built by 4 different histories (different
// arena shapes, leftover value-less nodes, recycled slots, host bits in the stored representation), and of
// every ordered pair (state, canonical state): `==` must agree with equality of the entry sequences of an
// independent oracle, clone() must be equal and independent, collect() of the own entries must be equal.
// ---------------------------------------------------------------------------------------------------------
const KEYS: [(u8, u8); 7] = [(0x00, 0), (0x00, 1), (0x80, 1), (0x00, 2), (0x40, 2), (0x80, 2), (0xc0, 2)];

/// oracle order: a prefix before what it covers, 0-branch before 1-branch (independent of the crate)
fn okey(p: (u8, u8)) -> Vec<u8> {
    (0..p.1).map(|i| (p.0 >> (7 - i)) & 1).collect()
}

/// digit d of state code c (base 3): 0 = absent, 1 = value 0, 2 = value 1
fn digit(c: u32, k: usize) -> u32 {
    (c / 3u32.pow(k as u32)) % 3
}

fn oracle(c: u32, host: u8) -> Vec<((u8, u8), u8)> {
    let mut v: Vec<((u8, u8), u8)> = Vec::new();
    for (k, key) in KEYS.iter().enumerate() {
        let d = digit(c, k);
        if d > 0 {
            v.push(((key.0 | (if key.1 < 8 { host & (0xffu8 >> key.1) } else { 0 }), key.1), (d - 1) as u8));
        }
    }
    v.sort_by_key(|e| okey(((e.0).0 & !(0xffu16 >> (e.0).1) as u8, (e.0).1)));
    v
}

/// history h: 0 ascending inserts, 1 descending inserts, 2 all keys then remove_keep_tree of the absent ones (leftover
/// nodes), 3 all keys then remove of the absent ones and re-insert of the present ones (recycled slots), 4 all keys then
/// removal of the absent ones through a mutable view (TrieViewMut::remove);
/// `host`: bits or-ed into the host part of every stored representation
fn build(c: u32, h: u32, host: u8) -> PrefixMap<P, u8> {
    let mut m: PrefixMap<P, u8> = PrefixMap::new();
    let rep = |key: (u8, u8)| (key.0 | (host & (0xffu8 >> key.1)), key.1);
    match h {
        0 => {
            for (k, key) in KEYS.iter().enumerate() {
                if digit(c, k) > 0 { m.insert(rep(*key), (digit(c, k) - 1) as u8); }
            }
        }
        1 => {
            for (k, key) in KEYS.iter().enumerate().rev() {
                if digit(c, k) > 0 { m.insert(rep(*key), (digit(c, k) - 1) as u8); }
            }
        }
        2 => {
            for (k, key) in KEYS.iter().enumerate() {
                m.insert(rep(*key), if digit(c, k) > 0 { (digit(c, k) - 1) as u8 } else { 7 });
            }
            for (k, key) in KEYS.iter().enumerate() {
                if digit(c, k) == 0 { m.remove_keep_tree(key); }
            }
        }
        4 => {
            // values removed through a mutable view (this leaves the cached counter stale - known finding under C04 -
            // which `==` must not depend on: it compares entry sequences)
            for (k, key) in KEYS.iter().enumerate() {
                m.insert(rep(*key), if digit(c, k) > 0 { (digit(c, k) - 1) as u8 } else { 7 });
            }
            for (k, key) in KEYS.iter().enumerate() {
                if digit(c, k) == 0 {
                    if let Some(mut v) = m.view_mut_at(*key) { v.remove(); }
                }
            }
        }
        _ => {
            for key in KEYS.iter() { m.insert(*key, 9); }
            for key in KEYS.iter().rev() { m.remove(key); }
            for (k, key) in KEYS.iter().enumerate() {
                if digit(c, k) > 0 { m.insert(rep(*key), (digit(c, k) - 1) as u8); }
            }
        }
    }
    m
}

fn c19_bounded() -> Result<(), String> {
    let n: u32 = 3u32.pow(7);
    let mut evals: u64 = 0;
    let mut unequal_expected: u64 = 0;
    let mut equal_expected: u64 = 0;
    // canonical operands (history 0, no host bits) and, for a sample of codes, host-bit variants
    let canon: Vec<PrefixMap<P, u8>> = (0..n).map(|c| build(c, 0, 0)).collect();
    let canon_o: Vec<Vec<((u8, u8), u8)>> = (0..n).map(|c| oracle(c, 0)).collect();
    for c in 0..n {
        for h in 0..5u32 {
            for host in [0u8, 0x15u8] {
                if host != 0 && h != 0 && h != 2 { continue; }
                let a = build(c, h, host);
                let ao = oracle(c, host);
                // the crate's own view of a must be the oracle's (iteration = stored entries in order)
                let seen: Vec<((u8, u8), u8)> = a.iter().map(|(p, v)| (*p, *v)).collect();
                if seen != ao {
                    return Err(format!("state code={c} history={h} host={host:#x}: iter() yields {seen:?}, expected {ao:?}"));
                }
                for d in 0..n {
                    let expect = ao == canon_o[d as usize];
                    let got_ab = a == canon[d as usize];
                    let got_ba = canon[d as usize] == a;
                    evals += 2;
                    if expect { equal_expected += 1 } else { unequal_expected += 1 }
                    if (c == 1000 && h == 2 && host == 0 && (d == 1000 || d == 271)) || (c == 5 && h == 0 && host == 0x15 && d == 5) {
                        println!("SAMPLE a: code {c} history {h} host {host:#x} entries {ao:?} | b: code {d} history 0 entries {:?} | a == b -> {got_ab}, b == a -> {got_ba}, oracle {expect}", canon_o[d as usize]);
                    }
                    if got_ab != expect || got_ba != expect {
                        return Err(format!("a = code {c} history {h} host {host:#x} entries {ao:?}; b = code {d} entries {:?}: a == b is {got_ab}, b == a is {got_ba}, expected {expect}", canon_o[d as usize]));
                    }
                }
                // reflexive, and equal to the same contents built by every other history
                if !(a == a) { return Err(format!("code {c} history {h}: a == a is false")); }
                for h2 in 0..5u32 {
                    let b = build(c, h2, host);
                    evals += 1;
                    if !(a == b) { return Err(format!("code {c} host {host:#x}: history {h} != history {h2} although both store {ao:?}")); }
                }
                // clone: equal, and independent in both directions
                let mut cl = a.clone();
                evals += 1;
                if !(cl == a) || (h != 4 && cl.len() != a.len()) { return Err(format!("code {c} history {h}: clone() is not equal to the original")); }
                cl.insert((0x20, 3), 5);
                if let Some(e) = ao.first() { cl.insert(e.0, 6); }
                let after: Vec<((u8, u8), u8)> = a.iter().map(|(p, v)| (*p, *v)).collect();
                if after != ao || (h != 4 && a.len() != ao.len()) { return Err(format!("code {c} history {h}: writing to the clone changed the original: {after:?}")); }
                if cl == a { return Err(format!("code {c} history {h}: clone with an extra entry still equals the original")); }
                // collect round trip (map and set)
                let rt: PrefixMap<P, u8> = a.iter().map(|(p, v)| (*p, *v)).collect();
                evals += 1;
                if !(rt == a) || !(a == rt) { return Err(format!("code {c} history {h} host {host:#x}: collect() of the own entries is not equal")); }
                let sa: PrefixSet<P> = a.keys().copied().collect();
                let sb: PrefixSet<P> = sa.iter().copied().collect();
                evals += 1;
                if !(sa == sb) || sa.len() != ao.len() { return Err(format!("code {c} history {h}: set collect round trip not equal")); }
            }
        }
    }
    // sets: every pair of key subsets, each stored without and with host bits (0x15 differs in the host part of every key)
    let mk = |b: u32, host: u8| -> PrefixSet<P> { KEYS.iter().enumerate().filter(|(k, _)| b >> k & 1 == 1).map(|(_, p)| (p.0 | (host & (0xffu8 >> p.1)), p.1)).collect() };
    let sets: Vec<[PrefixSet<P>; 2]> = (0..128u32).map(|b| [mk(b, 0), mk(b, 0x15)]).collect();
    for x in 0..128usize {
        for y in 0..128usize {
            for hx in 0..2usize {
                for hy in 0..2usize {
                    evals += 1;
                    let expect = x == y && (hx == hy || x == 0);
                    if expect { equal_expected += 1 } else { unequal_expected += 1 }
                    if (sets[x][hx] == sets[y][hy]) != expect {
                        return Err(format!("sets with key masks {x:#b} (host bits {}) and {y:#b} (host bits {}): == is {}, expected {expect}", hx == 1, hy == 1, sets[x][hx] == sets[y][hy]));
                    }
                }
            }
        }
    }
    println!("STATS c19_bounded evaluations={evals} pairs_expected_equal={equal_expected} pairs_expected_unequal={unequal_expected} states={} histories=5 exhaustive=true", n);
    Ok(())
}

// ---------------------------------------------------------------------------------------------------------
// `hunt`: concrete counterexample search, run by ./check only AFTER a Verus obligation failed (Verus gives no model).
// Small-scope exploration by execution of the real crate: every operation sequence up to a depth over the 7 prefixes of
// length <= 2 of (u8,u8) (+ host-bit variants on insertion), compared after every step with an abstract ordered map.
// A hit turns "no-failing-input-found" into a concrete failing history; a miss proves nothing and changes nothing.
// ---------------------------------------------------------------------------------------------------------
#[derive(Clone, Copy, Debug)]
enum Op { Insert(usize, u8), EntryOrInsert(usize, u8), EntryInsert(usize, u8), Remove(usize), RemoveKeepTree(usize), RemoveChildren(usize), RetainLenNot2, RetainEven, Clear }

type Oracle = std::collections::BTreeMap<Vec<u8>, ((u8, u8), u16)>;

fn hrep(k: usize, host: u8) -> (u8, u8) { let key = KEYS[k]; (key.0 | (host & (0xffu8 >> key.1)), key.1) }

fn covers(a: &[u8], b: &[u8]) -> bool { a.len() <= b.len() && a == &b[..a.len()] }

fn hunt_check(m: &PrefixMap<P, u16>, o: &Oracle, keep_tree_used: bool) -> Result<(), String> {
    partition_ok(m).map_err(|e| format!("slot partition broken: {e}"))?;
    let (_, _, count, slots) = m.verif_arena();
    if !keep_tree_used {
        // canonical shape: every reachable value-less node other than the root has two children
        let mut st = vec![0usize];
        while let Some(i) = st.pop() {
            let (l, r, v) = slots[i];
            if i != 0 && !v && !(l.is_some() && r.is_some()) { return Err(format!("non-canonical shape: value-less node at slot {i} has children ({l:?}, {r:?})")); }
            if let Some(l) = l { st.push(l) }
            if let Some(r) = r { st.push(r) }
        }
    }
    if m.len() != o.len() || count != o.len() || m.is_empty() != o.is_empty() { return Err(format!("len() = {}, stored entries = {}", m.len(), o.len())); }
    let want: Vec<((u8, u8), u16)> = o.values().cloned().collect();
    let got: Vec<((u8, u8), u16)> = m.iter().map(|(p, v)| (*p, *v)).collect();
    if got != want { return Err(format!("iter() yields {got:?}, expected {want:?}")); }
    let wk: Vec<(u8, u8)> = want.iter().map(|e| e.0).collect();
    let wv: Vec<u16> = want.iter().map(|e| e.1).collect();
    if m.keys().cloned().collect::<Vec<_>>() != wk { return Err(format!("keys() yields {:?}, expected {wk:?}", m.keys().collect::<Vec<_>>())); }
    if m.values().cloned().collect::<Vec<_>>() != wv { return Err(format!("values() yields {:?}, expected {wv:?}", m.values().collect::<Vec<_>>())); }
    if m.clone().into_iter().collect::<Vec<_>>() != want { return Err(format!("into_iter() yields {:?}, expected {want:?}", m.clone().into_iter().collect::<Vec<_>>())); }
    if m.clone().into_keys().collect::<Vec<_>>() != wk { return Err(format!("into_keys() yields {:?}, expected {wk:?}", m.clone().into_keys().collect::<Vec<_>>())); }
    if m.clone().into_values().collect::<Vec<_>>() != wv { return Err(format!("into_values() yields {:?}, expected {wv:?}", m.clone().into_values().collect::<Vec<_>>())); }
    {
        let mut mc = m.clone();
        let g: Vec<((u8, u8), u16)> = mc.iter_mut().map(|(p, v)| (*p, *v)).collect();
        if g != want { return Err(format!("iter_mut() yields {g:?}, expected {want:?}")); }
        let g: Vec<u16> = mc.values_mut().map(|v| *v).collect();
        if g != wv { return Err(format!("values_mut() yields {g:?}, expected {wv:?}")); }
    }
    for k in 0..7 {
        for host in [0u8, 0x2a] {
            let q = hrep(k, host);
            let e = o.get(&okey(KEYS[k]));
            if m.get(&q) != e.map(|x| &x.1) { return Err(format!("get({q:?}) = {:?}, expected {:?}", m.get(&q), e.map(|x| x.1))); }
            if m.contains_key(&q) != e.is_some() { return Err(format!("contains_key({q:?}) = {}", m.contains_key(&q))); }
            if m.get_key_value(&q).map(|(p, v)| (*p, *v)) != e.cloned() { return Err(format!("get_key_value({q:?}) = {:?}, expected {:?}", m.get_key_value(&q), e)); }
        }
    }
    let queries: Vec<(u8, u8)> = KEYS.iter().cloned().chain([(0x20, 3), (0x60, 3), (0xa0, 3), (0xe0, 3), (0x2f, 3)]).collect();
    for q in queries {
        let qk = okey((q.0 & !(0xffu16 >> q.1) as u8, q.1));
        let cov: Vec<((u8, u8), u16)> = o.iter().filter(|(k, _)| covers(k, &qk)).map(|(_, v)| *v).collect();   // BTreeMap order on bit strings: a prefix sorts first
        let mut by_len = cov.clone(); by_len.sort_by_key(|e| (e.0).1);
        let lpm = m.get_lpm(&q).map(|(p, v)| (*p, *v));
        if lpm != by_len.last().cloned() { return Err(format!("get_lpm({q:?}) = {lpm:?}, expected {:?}", by_len.last())); }
        if m.get_lpm_prefix(&q).cloned() != by_len.last().map(|e| e.0) { return Err(format!("get_lpm_prefix({q:?}) = {:?}, expected {:?}", m.get_lpm_prefix(&q), by_len.last().map(|e| e.0))); }
        let mut mc = m.clone();
        let lpm_mut = mc.get_lpm_mut(&q).map(|(p, v)| (*p, *v));
        if lpm_mut != by_len.last().cloned() { return Err(format!("get_lpm_mut({q:?}) = {lpm_mut:?}, expected {:?}", by_len.last())); }
        let spm = m.get_spm(&q).map(|(p, v)| (*p, *v));
        if spm != by_len.first().cloned() { return Err(format!("get_spm({q:?}) = {spm:?}, expected {:?}", by_len.first())); }
        let c: Vec<((u8, u8), u16)> = m.cover(&q).map(|(p, v)| (*p, *v)).collect();
        if c != by_len { return Err(format!("cover({q:?}) = {c:?}, expected {by_len:?}")); }
        let below: Vec<((u8, u8), u16)> = o.iter().filter(|(k, _)| covers(&qk, k)).map(|(_, v)| *v).collect();
        let ch: Vec<((u8, u8), u16)> = m.children(&q).map(|(p, v)| (*p, *v)).collect();
        if ch != below { return Err(format!("children({q:?}) = {ch:?}, expected {below:?}")); }
        let chm: Vec<((u8, u8), u16)> = mc.children_mut(&q).map(|(p, v)| (*p, *v)).collect();
        if chm != below { return Err(format!("children_mut({q:?}) = {chm:?}, expected {below:?}")); }
        let chi: Vec<((u8, u8), u16)> = m.clone().into_children(&q).collect();
        if chi != below { return Err(format!("into_children({q:?}) = {chi:?}, expected {below:?}")); }
    }
    Ok(())
}

fn hunt_apply(m: &mut PrefixMap<P, u16>, o: &mut Oracle, op: Op, val: u16) -> Result<(), String> {
    match op {
        Op::Insert(k, h) => {
            let p = hrep(k, h);
            let r = m.insert(p, val);
            let e = o.insert(okey(KEYS[k]), (p, val));
            if r != e.map(|x| x.1) { return Err(format!("insert({p:?}) returned {r:?}, expected {:?}", e.map(|x| x.1))); }
        }
        Op::EntryOrInsert(k, h) => {
            let p = hrep(k, h);
            let r = *m.entry(p).or_insert(val);
            let e = o.entry(okey(KEYS[k])).or_insert((p, val));
            if r != e.1 { return Err(format!("entry({p:?}).or_insert returned {r}, expected {}", e.1)); }
        }
        Op::EntryInsert(k, h) => {
            let p = hrep(k, h);
            let r = m.entry(p).insert(val);
            let e = o.insert(okey(KEYS[k]), (p, val));
            if r != e.map(|x| x.1) { return Err(format!("entry({p:?}).insert returned {r:?}, expected {:?}", e.map(|x| x.1))); }
        }
        Op::Remove(k) => {
            let r = m.remove(&KEYS[k]);
            let e = o.remove(&okey(KEYS[k]));
            if r != e.map(|x| x.1) { return Err(format!("remove({:?}) returned {r:?}, expected {:?}", KEYS[k], e.map(|x| x.1))); }
        }
        Op::RemoveKeepTree(k) => {
            let r = m.remove_keep_tree(&KEYS[k]);
            let e = o.remove(&okey(KEYS[k]));
            if r != e.map(|x| x.1) { return Err(format!("remove_keep_tree({:?}) returned {r:?}, expected {:?}", KEYS[k], e.map(|x| x.1))); }
        }
        Op::RemoveChildren(k) => {
            m.remove_children(&KEYS[k]);
            let qk = okey(KEYS[k]);
            o.retain(|kk, _| !covers(&qk, kk));
        }
        Op::RetainLenNot2 => { m.retain(|p, _| p.1 != 2); o.retain(|_, v| (v.0).1 != 2); }
        Op::RetainEven => { m.retain(|_, v| *v % 2 == 0); o.retain(|_, v| v.1 % 2 == 0); }
        Op::Clear => { m.clear(); o.clear(); }
    }
    Ok(())
}

fn hunt_rec(m: &PrefixMap<P, u16>, o: &Oracle, ops: &[Op], hist: &mut Vec<Op>, depth: usize, kt: bool, n: &mut u64) -> Result<(), String> {
    if depth == 0 { return Ok(()); }
    for op in ops {
        let mut m2 = m.clone();
        let mut o2 = o.clone();
        hist.push(*op);
        *n += 1;
        let kt2 = kt || matches!(op, Op::RemoveKeepTree(_) | Op::RemoveChildren(_));   // canonicity is claimed for the insert / remove / retain / clear sub-alphabet only
        let val = (hist.len() * 2 + (*n % 2) as usize) as u16;
        let step = std::panic::catch_unwind(std::panic::AssertUnwindSafe(|| {
            hunt_apply(&mut m2, &mut o2, *op, val)?;
            hunt_check(&m2, &o2, kt2)
        }));
        match step {
            Ok(Ok(())) => {}
            Ok(Err(e)) => return Err(format!("history {hist:?} (keys by index into {KEYS:?}; second field = host bits or-ed in): {e}")),
            Err(_) => return Err(format!("history {hist:?} (keys by index into {KEYS:?}): panic")),
        }
        hunt_rec(&m2, &o2, ops, hist, depth - 1, kt2, n)?;
        hist.pop();
    }
    Ok(())
}

fn hunt() -> Result<(), String> {
    std::panic::set_hook(Box::new(|_| {}));
    let depth: usize = std::env::var("VERIF_HUNT_DEPTH").ok().and_then(|s| s.parse().ok()).unwrap_or(3);
    let mut ops: Vec<Op> = Vec::new();
    for k in 0..7 {
        ops.push(Op::Insert(k, 0)); ops.push(Op::Insert(k, 0x15));
        ops.push(Op::EntryOrInsert(k, 0x33)); ops.push(Op::EntryInsert(k, 0x0f));
        ops.push(Op::Remove(k)); ops.push(Op::RemoveKeepTree(k)); ops.push(Op::RemoveChildren(k));
    }
    ops.push(Op::RetainLenNot2); ops.push(Op::RetainEven); ops.push(Op::Clear);
    let mut n = 0u64;
    // iterative deepening (the first hit is a shortest failing history); two start states: the empty map, and the full map
    // (so that removals meet every shape within the depth)
    let empty: PrefixMap<P, u16> = PrefixMap::new();
    let mut full: PrefixMap<P, u16> = PrefixMap::new();
    let mut of = Oracle::new();
    for k in 0..7 { full.insert(KEYS[k], 100 + k as u16); of.insert(okey(KEYS[k]), (KEYS[k], 100 + k as u16)); }
    for d in 1..=depth {
        hunt_rec(&empty, &Oracle::new(), &ops, &mut Vec::new(), d, false, &mut n)?;
        if d >= 2 {
            let mut h0 = vec![];
            hunt_rec(&full, &of, &ops, &mut h0, d - 1, false, &mut n).map_err(|e| format!("start = all 7 keys inserted with values 100..106, then {e}"))?;
        }
    }
    println!("STATS hunt evaluations={n} depth={depth}");
    Ok(())
}

// ---------------------------------------------------------------------------------------------------------
// `hunt_setops`: the same idea for the set operations on whole-map views (run only after a failed Verus obligation of
// C05-C08 / C13): every pair of key subsets of the 7 prefixes, operands built canonically or with leftover value-less
// nodes, right operand also with host bits; union / intersection / difference / covering_difference and their *_mut
// twins against lists computed from two abstract maps.
// ---------------------------------------------------------------------------------------------------------
type SetOracle = std::collections::BTreeMap<Vec<u8>, ((u8, u8), u16)>;

fn build_sub(mask: u32, leftover: bool, host: u8, base: u16) -> (PrefixMap<P, u16>, SetOracle) {
    let mut m: PrefixMap<P, u16> = PrefixMap::new();
    let mut o = SetOracle::new();
    if leftover { for k in 0..7 { m.insert(KEYS[k], 999); } }
    for k in 0..7 {
        if mask >> k & 1 == 1 { let p = hrep(k, host); m.insert(p, base + k as u16); o.insert(okey(KEYS[k]), (p, base + k as u16)); }
        else if leftover { m.remove_keep_tree(&KEYS[k]); }
    }
    (m, o)
}

fn lpm_in(o: &SetOracle, key: &[u8]) -> Option<((u8, u8), u16)> {
    o.iter().filter(|(k, _)| covers(k, key)).max_by_key(|(k, _)| k.len()).map(|(_, v)| *v)
}

fn hunt_setops() -> Result<(), String> {
    std::panic::set_hook(Box::new(|_| {}));
    let mut n = 0u64;
    for am in 0..128u32 {
        for al in [false, true] {
            let (mut a, oa) = build_sub(am, al, 0, 10);
            for bm in 0..128u32 {
                for (bl, bh) in [(false, 0u8), (true, 0u8), (false, 0x15u8)] {
                    let (mut b, ob) = build_sub(bm, bl, bh, 50);
                    n += 1;
                    let ctx = |what: &str, got: String, want: String| format!("a = {:?}{}, b = {:?}{}: {what} yields {got}, expected {want}", oa.values().collect::<Vec<_>>(), if al { " (+ leftover value-less nodes)" } else { "" }, ob.values().collect::<Vec<_>>(), if bl { " (+ leftover value-less nodes)" } else { "" });
                    let r = std::panic::catch_unwind(std::panic::AssertUnwindSafe(|| -> Result<(), String> {
                        // union
                        let mut want_u: Vec<String> = Vec::new();
                        let keys: std::collections::BTreeSet<&Vec<u8>> = oa.keys().chain(ob.keys()).collect();
                        for k in keys {
                            match (oa.get(k), ob.get(k)) {
                                (Some(x), Some(y)) => want_u.push(format!("Both({:?}|{:?},{},{})", x.0, y.0, x.1, y.1)),
                                (Some(x), None) => want_u.push(format!("Left({:?},{},{:?})", x.0, x.1, lpm_in(&ob, k))),
                                (None, Some(y)) => want_u.push(format!("Right({:?},{:?},{})", y.0, lpm_in(&oa, k), y.1)),
                                _ => {}
                            }
                        }
                        let fmt_u = |it: &trieview::UnionItem<P, u16, u16>, k: &Vec<u8>| -> String {
                            match it {
                                trieview::UnionItem::Both { prefix, left, right } => {
                                    let (x, y) = (oa.get(k), ob.get(k));
                                    let ok = x.map(|x| x.0 == **prefix).unwrap_or(false) || y.map(|y| y.0 == **prefix).unwrap_or(false);
                                    if ok { format!("Both({:?}|{:?},{},{})", x.map(|x| x.0).unwrap_or(**prefix), y.map(|y| y.0).unwrap_or(**prefix), left, right) } else { format!("Both(prefix {:?} stored in neither,{},{})", prefix, left, right) }
                                }
                                trieview::UnionItem::Left { prefix, left, right } => format!("Left({:?},{},{:?})", prefix, left, right.map(|(p, v)| (*p, *v))),
                                trieview::UnionItem::Right { prefix, left, right } => format!("Right({:?},{:?},{})", prefix, left.map(|(p, v)| (*p, *v)), right),
                            }
                        };
                        let got_u: Vec<String> = a.view().union(&b).map(|it| { let p = *it.prefix(); fmt_u(&it, &okey((p.0 & !(0xffu16 >> p.1) as u8, p.1))) }).collect();
                        if got_u != want_u { return Err(ctx("union", format!("{got_u:?}"), format!("{want_u:?}"))); }
                        // intersection
                        let want_i: Vec<(Vec<u8>, u16, u16)> = oa.iter().filter_map(|(k, x)| ob.get(k).map(|y| (k.clone(), x.1, y.1))).collect();
                        let got_i: Vec<(Vec<u8>, u16, u16)> = a.view().intersection(&b).map(|(p, l, r)| (okey((p.0 & !(0xffu16 >> p.1) as u8, p.1)), *l, *r)).collect();
                        if got_i != want_i { return Err(ctx("intersection", format!("{got_i:?}"), format!("{want_i:?}"))); }
                        for (p, _, _) in a.view().intersection(&b) {
                            let k = okey((p.0 & !(0xffu16 >> p.1) as u8, p.1));
                            if oa.get(&k).map(|x| x.0) != Some(*p) && ob.get(&k).map(|y| y.0) != Some(*p) { return Err(ctx("intersection", format!("prefix {p:?}"), "a stored representation".into())); }
                        }
                        // difference
                        let want_d: Vec<((u8, u8), u16, Option<((u8, u8), u16)>)> = oa.iter().filter(|(k, _)| !ob.contains_key(*k)).map(|(k, x)| (x.0, x.1, lpm_in(&ob, k))).collect();
                        let got_d: Vec<((u8, u8), u16, Option<((u8, u8), u16)>)> = a.view().difference(&b).map(|d| (*d.prefix, *d.value, d.right.map(|(p, v)| (*p, *v)))).collect();
                        if got_d != want_d { return Err(ctx("difference", format!("{got_d:?}"), format!("{want_d:?}"))); }
                        // covering difference
                        let want_c: Vec<((u8, u8), u16)> = oa.iter().filter(|(k, _)| lpm_in(&ob, k).is_none()).map(|(_, x)| (x.0, x.1)).collect();
                        let got_c: Vec<((u8, u8), u16)> = a.view().covering_difference(&b).map(|(p, v)| (*p, *v)).collect();
                        if got_c != want_c { return Err(ctx("covering_difference", format!("{got_c:?}"), format!("{want_c:?}"))); }
                        Ok(())
                    }));
                    match r { Ok(Ok(())) => {}, Ok(Err(e)) => return Err(e), Err(_) => return Err(ctx("a set operation", "a panic".into(), "no panic".into())) }
                    // *_mut twins mirror the read-only traversals (prefixes and presence / values)
                    let r2 = std::panic::catch_unwind(std::panic::AssertUnwindSafe(|| -> Result<(), String> {
                        let ro_u: Vec<((u8, u8), Option<u16>, Option<u16>)> = a.view().union(&b).map(|it| (*it.prefix(), it.left().map(|x| *x.1).filter(|_| !matches!(it, trieview::UnionItem::Right { .. })), it.right().map(|x| *x.1).filter(|_| !matches!(it, trieview::UnionItem::Left { .. })))).collect();
                        let mu_u: Vec<((u8, u8), Option<u16>, Option<u16>)> = a.view_mut().union_mut(&mut b).map(|(p, l, r)| (*p, l.map(|x| *x), r.map(|x| *x))).collect();
                        if ro_u != mu_u { return Err(ctx("union_mut", format!("{mu_u:?}"), format!("{ro_u:?} (= union)"))); }
                        let ro_i: Vec<((u8, u8), u16, u16)> = a.view().intersection(&b).map(|(p, l, r)| (*p, *l, *r)).collect();
                        let mu_i: Vec<((u8, u8), u16, u16)> = a.view_mut().intersection_mut(&mut b).map(|(p, l, r)| (*p, *l, *r)).collect();
                        if ro_i != mu_i { return Err(ctx("intersection_mut", format!("{mu_i:?}"), format!("{ro_i:?} (= intersection)"))); }
                        let ro_d: Vec<((u8, u8), u16, Option<((u8, u8), u16)>)> = a.view().difference(&b).map(|d| (*d.prefix, *d.value, d.right.map(|(p, v)| (*p, *v)))).collect();
                        let mu_d: Vec<((u8, u8), u16, Option<((u8, u8), u16)>)> = a.view_mut().difference_mut(&b).map(|d| (*d.prefix, *d.value, d.right.map(|(p, v)| (*p, *v)))).collect();
                        if ro_d != mu_d { return Err(ctx("difference_mut", format!("{mu_d:?}"), format!("{ro_d:?} (= difference)"))); }
                        let ro_c: Vec<((u8, u8), u16)> = a.view().covering_difference(&b).map(|(p, v)| (*p, *v)).collect();
                        let mu_c: Vec<((u8, u8), u16)> = a.view_mut().covering_difference_mut(&b).map(|(p, v)| (*p, *v)).collect();
                        if ro_c != mu_c { return Err(ctx("covering_difference_mut", format!("{mu_c:?}"), format!("{ro_c:?} (= covering_difference)"))); }
                        Ok(())
                    }));
                    match r2 { Ok(Ok(())) => {}, Ok(Err(e)) => return Err(e), Err(_) => return Err(ctx("a *_mut set operation", "a panic".into(), "no panic".into())) }
                }
            }
        }
    }
    // sub-views: key-level statements that do not depend on how annotations are seeded - the keys of union / intersection /
    // difference of a.view_at(r1) and b.view_at(r2) (two maps), and the intersection of two views of the SAME map
    for am in (0..128u32).step_by(3) {
        let (a, oa) = build_sub(am, false, 0, 10);
        for bm in (0..128u32).step_by(5) {
          for bl in [false, true] {
            let (b, ob) = build_sub(bm, bl, if bl { 0 } else { 0x15 }, 50);
            // the *_mut twin on a sub-view of a against the whole of b: keys and presence pattern
            for r1 in KEYS.iter() {
                let mut a2 = a.clone(); let mut b2 = b.clone();
                let k1 = okey(*r1);
                let kk = |p: &(u8, u8)| okey((p.0 & !(0xffu16 >> p.1) as u8, p.1));
                let r = std::panic::catch_unwind(std::panic::AssertUnwindSafe(|| -> Result<(), String> {
                    let Some(mut va) = a2.view_mut_at(*r1) else { return Ok(()) };
                    let g: Vec<(Vec<u8>, bool, bool)> = va.union_mut(&mut b2).map(|(p, l, r)| (kk(p), l.is_some(), r.is_some())).collect();
                    let ua: std::collections::BTreeSet<Vec<u8>> = oa.keys().filter(|k| covers(&k1, k)).cloned().collect();
                    let w: Vec<(Vec<u8>, bool, bool)> = ua.iter().chain(ob.keys().filter(|k| !ua.contains(*k))).map(|k| (k.clone(), ua.contains(k), ob.contains_key(k))).collect::<std::collections::BTreeSet<_>>().into_iter().collect();
                    if g != w { return Err(format!("a = {:?} viewed (mutably) at {r1:?}, b = {:?}{}: union_mut yields (key, left present, right present) {g:?}, expected {w:?}", oa.values().collect::<Vec<_>>(), ob.values().collect::<Vec<_>>(), if bl { " (+ leftover value-less nodes)" } else { "" })); }
                    Ok(())
                }));
                n += 1;
                match r { Ok(Ok(())) => {}, Ok(Err(e)) => return Err(e), Err(_) => return Err(format!("union_mut on a sub-view panicked (a = {:?} at {r1:?}, b = {:?})", oa.values().collect::<Vec<_>>(), ob.values().collect::<Vec<_>>())) }
            }
            for r1 in KEYS.iter() {
                for r2 in KEYS.iter() {
                    let (Some(va), Some(vb)) = (a.view_at(*r1), b.view_at(*r2)) else { continue };
                    n += 1;
                    let (k1, k2) = (okey(*r1), okey(*r2));
                    let ua: std::collections::BTreeSet<Vec<u8>> = oa.keys().filter(|k| covers(&k1, k)).cloned().collect();
                    let ub: std::collections::BTreeSet<Vec<u8>> = ob.keys().filter(|k| covers(&k2, k)).cloned().collect();
                    let kk = |p: &(u8, u8)| okey((p.0 & !(0xffu16 >> p.1) as u8, p.1));
                    let ctx = |what: &str, got: String, want: String| format!("a = {:?} viewed at {r1:?}, b = {:?} viewed at {r2:?}: {what} yields keys {got}, expected {want}", oa.values().collect::<Vec<_>>(), ob.values().collect::<Vec<_>>());
                    let r = std::panic::catch_unwind(std::panic::AssertUnwindSafe(|| -> Result<(), String> {
                        let g: Vec<Vec<u8>> = va.union(vb.clone()).map(|it| kk(it.prefix())).collect();
                        let w: Vec<Vec<u8>> = ua.union(&ub).cloned().collect();
                        if g != w { return Err(ctx("union", format!("{g:?}"), format!("{w:?}"))); }
                        let g: Vec<Vec<u8>> = va.intersection(vb.clone()).map(|(p, _, _)| kk(p)).collect();
                        let w: Vec<Vec<u8>> = ua.intersection(&ub).cloned().collect();
                        if g != w { return Err(ctx("intersection", format!("{g:?}"), format!("{w:?}"))); }
                        let g: Vec<Vec<u8>> = va.difference(vb.clone()).map(|d| kk(d.prefix)).collect();
                        let w: Vec<Vec<u8>> = ua.difference(&ub).cloned().collect();
                        if g != w { return Err(ctx("difference", format!("{g:?}"), format!("{w:?}"))); }
                        Ok(())
                    }));
                    match r { Ok(Ok(())) => {}, Ok(Err(e)) => return Err(e), Err(_) => return Err(ctx("a set operation on sub-views", "a panic".into(), "no panic".into())) }
                }
            }
          }
        }
        for r1 in KEYS.iter() {
            for r2 in KEYS.iter() {
                let (Some(v1), Some(v2)) = (a.view_at(*r1), a.view_at(*r2)) else { continue };
                n += 1;
                let (k1, k2) = (okey(*r1), okey(*r2));
                let w: Vec<(Vec<u8>, u16, u16)> = oa.iter().filter(|(k, _)| covers(&k1, k) && covers(&k2, k)).map(|(k, v)| (k.clone(), v.1, v.1)).collect();
                let g: Vec<(Vec<u8>, u16, u16)> = v1.intersection(v2).map(|(p, l, r)| (okey((p.0 & !(0xffu16 >> p.1) as u8, p.1)), *l, *r)).collect();
                if g != w { return Err(format!("map {:?}: view_at({r1:?}).intersection(view_at({r2:?})) of the same map yields {g:?}, expected {w:?}", oa.values().collect::<Vec<_>>())); }
            }
        }
    }
    println!("STATS hunt_setops evaluations={n}");
    Ok(())
}

// ---------------------------------------------------------------------------------------------------------
// `hunt_views`: concrete counterexample search for the view properties (C11, C12 and the view part of C13), run only
// after a failed Verus obligation: every key subset of the 7 prefixes (canonical / with leftover value-less nodes / with
// host bits), every view root r (whole map and view_at(r)) and every query q covered by r: find / find_exact / find_lpm /
// left / right / value / prefix / iter of TrieView and the TrieViewMut twins against an abstract map.  Queries not covered
// by the view root are left out (known finding c12-find-ignores-view-prefix).
// ---------------------------------------------------------------------------------------------------------
fn hunt_views() -> Result<(), String> {
    std::panic::set_hook(Box::new(|_| {}));
    let mut n = 0u64;
    let mask8 = |p: (u8, u8)| (p.0 & !(0xffu16 >> p.1) as u8, p.1);
    let mut qs: Vec<(u8, u8)> = KEYS.to_vec();
    qs.extend([(0x20, 3), (0x60, 3), (0xa0, 3), (0xe0, 3), (0x00, 3)]);
    for am in 0..128u32 {
        for (leftover, host) in [(false, 0u8), (true, 0u8), (false, 0x15u8)] {
            let (mut m, o) = build_sub(am, leftover, host, 10);
            let under = |r: &[u8]| -> Vec<((u8, u8), u16)> { o.iter().filter(|(k, _)| covers(r, k)).map(|(_, v)| *v).collect() };
            let desc = format!("map {:?}{}", o.values().collect::<Vec<_>>(), if leftover { " (+ leftover value-less nodes)" } else { "" });
            let res = std::panic::catch_unwind(std::panic::AssertUnwindSafe(|| -> Result<(), String> {
                let mut roots: Vec<Option<(u8, u8)>> = vec![None];
                roots.extend(KEYS.iter().map(|k| Some(*k)));
                for root in roots.iter() {
                    let rk: Vec<u8> = root.map(|r| okey(r)).unwrap_or_default();
                    let rq = root.map(|r| (r.0 | (0x2a & (0xffu8 >> r.1)), r.1));      // the query carries other host bits
                    let v0 = match rq { None => Some(m.view()), Some(r) => m.view_at(r) };
                    let ents = under(&rk);
                    let Some(v0) = v0 else {
                        if !ents.is_empty() { return Err(format!("{desc}: view_at({rq:?}) is None although {ents:?} are stored below it")); }
                        continue;
                    };
                    if !leftover && !rk.is_empty() && ents.is_empty() { return Err(format!("{desc}: view_at({rq:?}) exists but contains no entry (canonical map)")); }
                    let got: Vec<((u8, u8), u16)> = v0.iter().map(|(p, v)| (*p, *v)).collect();
                    if got != ents { return Err(format!("{desc}: view at {rq:?} iterates {got:?}, expected {ents:?}")); }
                    if okey(mask8(*v0.prefix())) != rk { return Err(format!("{desc}: view at {rq:?} reports prefix {:?}", v0.prefix())); }
                    let got2: Vec<((u8, u8), u16)> = v0.clone().into_iter().map(|(p, v)| (*p, *v)).collect();
                    if got2 != ents { return Err(format!("{desc}: view at {rq:?}: into_iter() yields {got2:?}, expected {ents:?}")); }
                    let gk: Vec<(u8, u8)> = v0.keys().cloned().collect();
                    if gk != ents.iter().map(|e| e.0).collect::<Vec<_>>() { return Err(format!("{desc}: view at {rq:?}: keys() yields {gk:?}")); }
                    let here = o.get(&rk).map(|e| e.1);
                    if v0.value().cloned() != here { return Err(format!("{desc}: view at {rq:?}: value() = {:?}, expected {here:?}", v0.value())); }
                    if v0.prefix_value().map(|(p, v)| (*p, *v)) != o.get(&rk).cloned() { return Err(format!("{desc}: view at {rq:?}: prefix_value() = {:?}, expected {:?}", v0.prefix_value(), o.get(&rk))); }
                    for (side, bit) in [("left", 0u8), ("right", 1u8)] {
                        if rk.len() >= 8 { continue; }
                        let mut ck = rk.clone(); ck.push(bit);
                        let want = under(&ck);
                        let sv = if bit == 0 { v0.left() } else { v0.right() };
                        match sv {
                            None => if !want.is_empty() { return Err(format!("{desc}: view at {rq:?}: {side}() is None although {want:?} are stored on that side")); },
                            Some(sv) => {
                                let g: Vec<((u8, u8), u16)> = sv.iter().map(|(p, v)| (*p, *v)).collect();
                                if g != want { return Err(format!("{desc}: view at {rq:?}: {side}() iterates {g:?}, expected {want:?}")); }
                                if !leftover && want.is_empty() { return Err(format!("{desc}: view at {rq:?}: {side}() exists but is empty (canonical map)")); }
                            }
                        }
                    }
                    // a view root that is no node of the trie (a position on an edge) is left out of the find family: queries between
                    // such a position and its node are part of the known finding c12-find-ignores-view-prefix
                    let is_node = rk.is_empty() || leftover || o.contains_key(&rk) || {
                        let (mut l, mut r) = (rk.clone(), rk.clone()); l.push(0); r.push(1);
                        !under(&l).is_empty() && !under(&r).is_empty()
                    };
                    for q in qs.iter() {
                        let qk = okey(mask8(*q));
                        if !covers(&rk, &qk) || !is_node { continue; }
                        n += 1;
                        let qq = (q.0 | (0x2a & (0xffu8 >> q.1)), q.1);
                        let below = under(&qk);
                        match v0.find(qq) {
                            None => if !below.is_empty() { return Err(format!("{desc}: view at {rq:?}: find({qq:?}) is None although {below:?} are stored below it")); },
                            Some(f) => {
                                let g: Vec<((u8, u8), u16)> = f.iter().map(|(p, v)| (*p, *v)).collect();
                                if g != below { return Err(format!("{desc}: view at {rq:?}: find({qq:?}) iterates {g:?}, expected {below:?}")); }
                                if okey(mask8(*f.prefix())) != qk { return Err(format!("{desc}: view at {rq:?}: find({qq:?}) reports prefix {:?}", f.prefix())); }
                                if !leftover && below.is_empty() && !qk.is_empty() { return Err(format!("{desc}: view at {rq:?}: find({qq:?}) exists but is empty (canonical map)")); }
                            }
                        }
                        let exact = o.get(&qk).cloned();
                        match v0.find_exact(&qq) {
                            None => if exact.is_some() { return Err(format!("{desc}: view at {rq:?}: find_exact({qq:?}) is None although {exact:?} is stored")); },
                            Some(f) => {
                                if exact.is_none() { return Err(format!("{desc}: view at {rq:?}: find_exact({qq:?}) is Some although nothing is stored there")); }
                                let g: Vec<((u8, u8), u16)> = f.iter().map(|(p, v)| (*p, *v)).collect();
                                if g != below || f.prefix_value().map(|(p, v)| (*p, *v)) != exact { return Err(format!("{desc}: view at {rq:?}: find_exact({qq:?}) is at {:?} and iterates {g:?}, expected {exact:?} / {below:?}", f.prefix_value())); }
                            }
                        }
                        let lpm = o.iter().filter(|(k, _)| covers(&rk, k) && covers(k, &qk)).max_by_key(|(k, _)| k.len()).map(|(_, v)| *v);
                        let got_lpm = v0.find_lpm(&qq).map(|f| f.prefix_value().map(|(p, v)| (*p, *v)));
                        if got_lpm != lpm.map(Some) { return Err(format!("{desc}: view at {rq:?}: find_lpm({qq:?}) is positioned at {got_lpm:?}, expected {lpm:?}")); }
                    }
                }
                Ok(())
            }));
            match res { Ok(Ok(())) => {}, Ok(Err(e)) => return Err(e), Err(_) => return Err(format!("{desc}: a view operation panicked")) }
            // TrieViewMut twins mirror the read-only views
            let res2 = std::panic::catch_unwind(std::panic::AssertUnwindSafe(|| -> Result<(), String> {
                for r in KEYS.iter() {
                    let ro: Option<Vec<((u8, u8), u16)>> = m.view_at(*r).map(|v| v.iter().map(|(p, v)| (*p, *v)).collect());
                    let ro_val = m.view_at(*r).and_then(|v| v.prefix_value().map(|(p, v)| (*p, *v)));
                    let mu: Option<Vec<((u8, u8), u16)>> = m.view_mut_at(*r).map(|mut v| v.iter_mut().map(|(p, v)| (*p, *v)).collect());
                    if ro != mu { return Err(format!("{desc}: view_mut_at({r:?}).iter_mut() yields {mu:?}, view_at(..).iter() yields {ro:?}")); }
                    for hostq in [0u8, 0x2a, 0x55, 0xff] {
                        let rq = (r.0 | (hostq & (0xffu8 >> r.1)), r.1);
                        let (hl, hr) = (m.view_at(rq).map(|v| v.left().is_some()), m.view_at(rq).map(|v| v.right().is_some()));
                        let (ml, mr) = (m.view_mut_at(rq).map(|v| v.has_left()), m.view_mut_at(rq).map(|v| v.has_right()));
                        if hl != ml || hr != mr { return Err(format!("{desc}: view_mut_at({rq:?}): has_left/has_right = {ml:?}/{mr:?}, the read-only view has left/right = {hl:?}/{hr:?}")); }
                    }
                    let mu_val = m.view_mut_at(*r).and_then(|mut v| v.prefix_value_mut().map(|(p, v)| (*p, *v)));
                    if ro_val != mu_val { return Err(format!("{desc}: view_mut_at({r:?}).prefix_value_mut() = {mu_val:?}, prefix_value() = {ro_val:?}")); }
                    for q in qs.iter() {
                        if !covers(&okey(*r), &okey(mask8(*q))) { continue; }
                        let a = m.view_at(*r).and_then(|v| v.find_lpm(q)).map(|f| *f.prefix());
                        let b = m.view_mut_at(*r).and_then(|v| v.find_lpm(q).ok()).map(|f| *f.prefix());
                        if a != b { return Err(format!("{desc}: view_mut_at({r:?}).find_lpm({q:?}) is at {b:?}, the read-only view's at {a:?}")); }
                        let a = m.view_at(*r).and_then(|v| v.find_exact(q)).map(|f| *f.prefix());
                        let b = m.view_mut_at(*r).and_then(|v| v.find_exact(q).ok()).map(|f| *f.prefix());
                        if a != b { return Err(format!("{desc}: view_mut_at({r:?}).find_exact({q:?}) is at {b:?}, the read-only view's at {a:?}")); }
                        // a failed search hands back the ORIGINAL view
                        let orig = m.view_at(*r).map(|v| (*v.prefix(), v.iter().count()));
                        if let Some(v) = m.view_mut_at(*r) { if let Err(mut e) = v.find(*q) { let g = Some((*e.prefix(), e.iter_mut().count())); if g != orig { return Err(format!("{desc}: view_mut_at({r:?}).find({q:?}) failed and handed back a view at {g:?}, the original view is {orig:?}")); } } }
                        if let Some(v) = m.view_mut_at(*r) { if let Err(mut e) = v.find_exact(q) { let g = Some((*e.prefix(), e.iter_mut().count())); if g != orig { return Err(format!("{desc}: view_mut_at({r:?}).find_exact({q:?}) failed and handed back a view at {g:?}, the original view is {orig:?}")); } } }
                        if let Some(v) = m.view_mut_at(*r) { if let Err(mut e) = v.find_lpm(q) { let g = Some((*e.prefix(), e.iter_mut().count())); if g != orig { return Err(format!("{desc}: view_mut_at({r:?}).find_lpm({q:?}) failed and handed back a view at {g:?}, the original view is {orig:?}")); } } }
                        let a = m.view_at(*r).and_then(|v| v.find(*q)).map(|f| (*f.prefix(), f.iter().count()));
                        let b = m.view_mut_at(*r).and_then(|v| v.find(*q).ok()).map(|mut f| (*f.prefix(), f.iter_mut().count()));
                        if a != b { return Err(format!("{desc}: view_mut_at({r:?}).find({q:?}) is {b:?}, the read-only view's {a:?}")); }
                    }
                }
                Ok(())
            }));
            match res2 { Ok(Ok(())) => {}, Ok(Err(e)) => return Err(e), Err(_) => return Err(format!("{desc}: a mutable-view operation panicked")) }
        }
    }
    println!("STATS hunt_views evaluations={n}");
    Ok(())
}

// ---------------------------------------------------------------------------------------------------------
// `hunt_panics` (C20, user callbacks): a panic is injected at every invocation index of the retain predicate and into the
// closures of or_insert_with / insert_with / and_modify, for every key subset of the 7 prefixes (canonical and with
// leftover value-less nodes).  After the unwound call the map must be well-formed (slot partition), size-consistent
// (len() == iter().count()) and hold exactly the entries it held before, minus those the predicate had already rejected.
// ---------------------------------------------------------------------------------------------------------
fn hunt_panics() -> Result<(), String> {
    std::panic::set_hook(Box::new(|_| {}));
    let mut n = 0u64;
    let state = |m: &PrefixMap<P, u16>| -> Vec<((u8, u8), u16)> { m.iter().map(|(p, v)| (*p, *v)).collect() };
    let consistent = |m: &PrefixMap<P, u16>, what: &str, desc: &str| -> Result<(), String> {
        partition_ok(m).map_err(|e| format!("{desc}: after a panic in {what}: slot partition broken: {e}"))?;
        let c = m.iter().count();
        if m.len() != c { return Err(format!("{desc}: after a panic in {what}: len() = {}, iter().count() = {c}", m.len())); }
        Ok(())
    };
    for am in 0..128u32 {
        for leftover in [false, true] {
            let (m0, o) = build_sub(am, leftover, 0, 10);
            let desc = format!("map {:?}{}", o.values().collect::<Vec<_>>(), if leftover { " (+ leftover value-less nodes)" } else { "" });
            let before = state(&m0);
            // retain: reject entries with an odd value; panic at invocation index i
            for i in 0..before.len() {
                n += 1;
                let mut m = m0.clone();
                let mut calls = 0usize;
                let mut rejected: Vec<(u8, u8)> = Vec::new();
                let r = std::panic::catch_unwind(std::panic::AssertUnwindSafe(|| {
                    m.retain(|p, v| {
                        if calls == i { panic!("injected"); }
                        calls += 1;
                        let keep = *v % 2 == 0;
                        if !keep { rejected.push(*p); }
                        keep
                    });
                }));
                if r.is_ok() { return Err(format!("{desc}: retain with a predicate panicking at call {i} returned normally")); }
                consistent(&m, &format!("the retain predicate (call {i})"), &desc)?;
                let want: Vec<((u8, u8), u16)> = before.iter().filter(|e| !rejected.contains(&e.0)).cloned().collect();
                let got = state(&m);
                if got != want { return Err(format!("{desc}: after a panic in the retain predicate at call {i} (already rejected: {rejected:?}) the map holds {got:?}, expected {want:?}")); }
            }
            // entry closures
            for k in 0..7 {
                for (what, run) in [
                    ("or_insert_with", (|m: &mut PrefixMap<P, u16>, k: usize| { m.entry(KEYS[k]).or_insert_with(|| panic!("injected")); }) as fn(&mut PrefixMap<P, u16>, usize)),
                    ("VacantEntry::insert_with", |m: &mut PrefixMap<P, u16>, k: usize| { if let map::Entry::Vacant(e) = m.entry(KEYS[k]) { e.insert_with(|| panic!("injected")); } }),
                    ("and_modify", |m: &mut PrefixMap<P, u16>, k: usize| { let _ = m.entry(KEYS[k]).and_modify(|_| panic!("injected")); }),
                ] {
                    n += 1;
                    let mut m = m0.clone();
                    let _ = std::panic::catch_unwind(std::panic::AssertUnwindSafe(|| run(&mut m, k)));
                    consistent(&m, &format!("{what} on {:?}", KEYS[k]), &desc)?;
                    let got = state(&m);
                    if got != before { return Err(format!("{desc}: after a panic in the closure of {what} on {:?} the map holds {got:?}, expected {before:?}", KEYS[k])); }
                }
            }
        }
    }
    println!("STATS hunt_panics evaluations={n}");
    Ok(())
}

fn c04_entry_remove() -> Result<(), String> {
    let mut m: PrefixMap<P, u8> = PrefixMap::new();
    m.insert((0x80, 1), 1);
    if let map::Entry::Occupied(mut e) = m.entry((0x80, 1)) {
        e.remove();
    }
    if m.len() != m.iter().count() {
        return Err(format!("after OccupiedEntry::remove: len()={} iter().count()={}", m.len(), m.iter().count()));
    }
    Ok(())
}

fn c04_entry_remove_reinsert() -> Result<(), String> {
    // the OccupiedEntry handle survives remove(&mut self); re-wrapping it stores a value without counting it
    let mut m: PrefixMap<P, u8> = PrefixMap::new();
    m.insert((0x80, 1), 1);
    if let map::Entry::Occupied(mut e) = m.entry((0x80, 1)) {
        e.remove();
        map::Entry::Occupied(e).or_insert(7);
    }
    if m.len() != m.iter().count() {
        return Err(format!("after e.remove(); Entry::Occupied(e).or_insert(7): len()={} iter().count()={}", m.len(), m.iter().count()));
    }
    Ok(())
}

fn c04_view_remove() -> Result<(), String> {
    let mut m: PrefixMap<P, u8> = PrefixMap::new();
    m.insert((0x80, 1), 1);
    (&mut m).view_mut_at((0x80, 1)).unwrap().remove();
    if m.len() != m.iter().count() {
        return Err(format!("after TrieViewMut::remove: len()={} iter().count()={}", m.len(), m.iter().count()));
    }
    Ok(())
}

fn c04_view_set() -> Result<(), String> {
    let mut m: PrefixMap<P, u8> = PrefixMap::new();
    m.insert((0x80, 1), 1);
    m.remove_keep_tree(&(0x80, 1));
    let _ = (&mut m).view_mut_at((0x80, 1)).unwrap().set(5);
    if m.len() != m.iter().count() {
        return Err(format!("after TrieViewMut::set on a value-less node: len()={} iter().count()={}", m.len(), m.iter().count()));
    }
    Ok(())
}

fn c20_counter_underflow() -> Result<(), String> {
    let r = std::panic::catch_unwind(|| {
        let mut m: PrefixMap<P, u8> = PrefixMap::new();
        m.insert((0x80, 1), 1);
        m.remove_keep_tree(&(0x80, 1));
        let _ = (&mut m).view_mut_at((0x80, 1)).unwrap().set(5);
        m.remove(&(0x80, 1));
    });
    if r.is_err() {
        return Err("remove() after view set() on a value-less node panicked (counter underflow)".into());
    }
    Ok(())
}

fn c20_entry_remove_get() -> Result<(), String> {
    let r = std::panic::catch_unwind(|| {
        let mut m: PrefixMap<P, u8> = PrefixMap::new();
        m.insert((0x80, 1), 1);
        if let map::Entry::Occupied(mut e) = m.entry((0x80, 1)) {
            e.remove();
            let _ = e.get();
        }
    });
    if r.is_err() {
        return Err("OccupiedEntry::remove(); OccupiedEntry::get() panicked".into());
    }
    Ok(())
}

fn c08_lpm_seed() -> Result<(), String> {
    let mut a: PrefixMap<P, u8> = PrefixMap::new();
    a.insert((0x00, 2), 1);
    a.insert((0x00, 3), 2);
    let mut b: PrefixMap<P, u8> = PrefixMap::new();
    b.insert((0x80, 2), 3);
    b.insert((0x80, 3), 4);
    let va = a.view_at((0x00, 2)).unwrap();
    let vb = b.view_at((0x80, 2)).unwrap();
    for item in va.union(vb) {
        match item {
            trieview::UnionItem::Left { prefix, right: Some((rp, _)), .. } if !rp.contains(prefix) => {
                return Err(format!("union Left item {prefix:?} reports right LPM {rp:?} which does not cover it"));
            }
            trieview::UnionItem::Right { prefix, left: Some((lp, _)), .. } if !lp.contains(prefix) => {
                return Err(format!("union Right item {prefix:?} reports left LPM {lp:?} which does not cover it"));
            }
            _ => {}
        }
    }
    let va = a.view_at((0x00, 2)).unwrap();
    let vb = b.view_at((0x80, 2)).unwrap();
    for item in va.difference(vb) {
        if let Some((rp, _)) = item.right {
            if !rp.contains(item.prefix) {
                return Err(format!("difference item {:?} reports right LPM {rp:?} which does not cover it", item.prefix));
            }
        }
    }
    Ok(())
}

fn c12_find_relative() -> Result<(), String> {
    let mut m: PrefixMap<P, u8> = PrefixMap::new();
    m.insert((0x00, 2), 1);
    m.insert((0x00, 3), 2);
    m.insert((0x20, 3), 3);
    let v = m.view_at((0x00, 2)).unwrap();
    // q = 0x00/1 covers the view: find must address all three entries of v
    match v.find((0x00, 1)) {
        Some(f) => {
            let n = f.iter().count();
            if n != 3 {
                return Err(format!("view 0x00/2 of {{0x00/2,0x00/3,0x20/3}}: find(0x00/1) addresses {n} entries, expected 3"));
            }
        }
        None => return Err("find(0x00/1) returned None although the view has entries covered by it".into()),
    }
    // q = 0x80/1 is disjoint from the view: find_lpm must be None
    if let Some(f) = v.find_lpm(&(0x80, 1)) {
        return Err(format!("find_lpm(0x80/1) from view 0x00/2 returned {:?} which does not cover the query", f.prefix()));
    }
    Ok(())
}

fn c18_union_right_prefix() -> Result<(), String> {
    // left: branching node 0x00/1 without value; right: stores 0x00/1 under the representation (0x2a, 1)
    let mut a: PrefixMap<P, u8> = PrefixMap::new();
    a.insert((0x00, 2), 1);
    a.insert((0x40, 2), 2);
    let mut b: PrefixMap<P, u8> = PrefixMap::new();
    b.insert((0x2a, 1), 9);
    for item in a.view().union(&b) {
        if let trieview::UnionItem::Right { prefix, right, .. } = item {
            if *right == 9 && (prefix.0, prefix.1) != (0x2a, 1) {
                return Err(format!("union reports the entry stored only in the right map as ({:#x}, {}) instead of its stored representation (0x2a, 1)", prefix.0, prefix.1));
            }
        }
    }
    for (prefix, l, r) in a.view_mut().union_mut(&mut b) {
        if l.is_none() && r.is_some() && (prefix.0, prefix.1) != (0x2a, 1) {
            return Err(format!("union_mut reports the entry stored only in the right map as ({:#x}, {}) instead of its stored representation (0x2a, 1)", prefix.0, prefix.1));
        }
    }
    Ok(())
}

fn main() {
    let scen = std::env::args().nth(1).unwrap_or_default();
    let table: Vec<(&str, fn() -> Result<(), String>)> = vec![
        ("c16_leak", c16_leak),
        ("c19_eq_prefix", c19_eq_prefix),
        ("c19_bounded", c19_bounded),
        ("hunt", hunt),
        ("hunt_setops", hunt_setops),
        ("hunt_views", hunt_views),
        ("hunt_panics", hunt_panics),
        ("c04_entry_remove", c04_entry_remove),
        ("c04_entry_remove_reinsert", c04_entry_remove_reinsert),
        ("c04_view_remove", c04_view_remove),
        ("c04_view_set", c04_view_set),
        ("c20_counter_underflow", c20_counter_underflow),
        ("c20_entry_remove_get", c20_entry_remove_get),
        ("c08_lpm_seed", c08_lpm_seed),
        ("c12_find_relative", c12_find_relative),
        ("c18_union_right_prefix", c18_union_right_prefix),
    ];
    let mut bad = 0;
    for (name, f) in &table {
        if scen == "all" || scen == *name {
            match f() {
                Ok(()) => println!("HOLDS {name}"),
                Err(e) => {
                    println!("FAILS {name}: {e}");
                    bad += 1;
                }
            }
        }
    }
    std::process::exit(if bad > 0 { 1 } else { 0 });
}
