"""Mechanical extractor: cuts items out of /repo/src, applies the fixed rewrite rules R1..R9
(DESIGN.md section 3.2), splices the contracts of a unit (/verif/contracts/<unit>.spec) and
emits one Verus file plus a line map.

Nothing of /repo is copied by hand: every function body in the emitted unit is the text found
in the working tree at extraction time, modified only at the rewrite points listed in
`RULES_DOC` (reported in the evidence) and at the splice points named by the contract store.
"""
import json, os, re, sys, hashlib
sys.path.insert(0, os.path.dirname(__file__))
from rustlex import lex, items, impl_key, match_close, Tok

REPO = os.environ.get("VERIF_REPO", "/repo")
VERIF = os.path.dirname(os.path.dirname(os.path.abspath(__file__)))

class LostAnchor(Exception):
    pass

RULES_DOC = {
    "R1": "Table newtype over UnsafeCell<Vec<Node>> replaced by `pub struct Table<P,T>(pub Vec<Node<P,T>>)`; `X[e]` -> `X.0[e]` and `X.as_ref()/as_mut()` -> `X.0` on table paths (drops: interior mutability layer inner.rs:37-83, trusted to behave as Vec)",
    "R2": "demotion in *_mut twins: `unsafe { X.get_mut(e) }` -> `&X.0[e]`, `&'a mut`/`&mut` in return position -> `&`, `.as_mut()` -> `.as_ref()`, `prefix_value_mut` -> `prefix_value` (drops: aliasing/exclusivity, write-through)",
    "R3": "destructuring assignment `(a, b) = e;` -> `let __t = e; a = __t.0; b = __t.1;`",
    "R4": "trait impl method emitted as inherent method (`impl Iterator for X` -> `impl X`), `Self::Item` -> the declared item type",
    "R5": "closure given an explicit signature/ensures from the contract store (keyed by closure ordinal)",
    "R7": "doc comments and attributes dropped; `pub(crate)`/`pub(super)` -> `pub`; private fields/functions made `pub`",
    "R8": "`unreachable!()` -> call of `unreached()` (requires false); `debug_assert!(e)` -> `assert(e)`",
    "R9": "std functions without vstd spec get assume_specification from speclib/std_specs.rs",
    "R10": "`let PAT = EXPR else { return X; };` (let-else) -> `let (binders) = match EXPR { PAT => (binders), _ => { return X; } };`",
    "R13": "closure with a tuple-pattern parameter `|(a, b)| e` -> `|v: T| { let (a, b) = v; e }`",
    "R14": "`let X = loop { .. break E .. };` (break with value) -> `let X; loop { .. { X = E; break; } .. }`",
    "R16": "impl header replaced by the one given in the contract store (adds the bound `P: Prefix` where the source impl is unbounded; the contract is meaningless for other P)",
    "R17": "crate-internal module path prefixes dropped (the unit is a single flat module)",
    "R18": "`unsafe { e }` -> `{ e }` and `unsafe fn` -> `fn` (markers only)",
    "R12": "`a.mask().cmp(&b.mask())` -> `a.mask_cmp(b)`, `a.mask() < b.mask()` -> `a.mask_lt(b)` (contract methods of the Prefix trait; their order contract is discharged by the Kani harness mask_order)",
    "R11": "`vec![a, b]` -> `vec2(a, b)`-style helper calls with vstd-verified bodies (speclib/std_specs.rs)",
    "R24": "`for PAT in X { B }` / `X.into_iter().for_each(|PAT| { B });` over a generic `X: IntoIterator` -> `let mut it__ = into_iter_model(X); loop { match src_next(&mut it__) { None => { break; } Some(PAT) => { B } } }` - the loop that the language defines `for` as (and that the default `Iterator::for_each` runs); into_iter_model / src_next are TRUSTED wrappers of IntoIterator::into_iter / Iterator::next over an uninterpreted finite item sequence (assumes: the iterator is finite and, for for_each, not overridden with different behaviour)",
    "Rx": "per-function textual rewrites declared in the contract store (`rewrite /re/ => text ## why`); each is listed with its reason in the evidence. The ones in use: "
          "R6 closure body of `iter.map(|x| ..)` lifted into a function of one element (extend_lpm_elem); "
          "R19 ghost parameters `Ghost(xa), Ghost(xb)` appended to `next()` of the set-operation iterators (erased); "
          "R20 `impl IntoIterator<Item = X> + 'static` parameter narrowed to `Vec<X>`, one-element array arguments -> vec1; "
          "R21 `Vec::extend(Vec|Option)` / `Vec::from_iter(Option)` -> trusted helpers vec_extend / vec_extend_opt / vec_from_opt; "
          "R22 `extend_lpm(..).collect()` -> one trusted function Vec -> Vec; "
          "R23 `impl AsView/AsViewMut` argument taken as the view type it converts to (`other.view()` dropped); "
          "R25 forwarding closure `|p, _| f(p)` over a captured FnMut (PrefixSet::retain) -> trusted adapter adapt_key_pred; "
          "R27 `opt.as_mut().map(f)` with a user `FnOnce(&mut T)` (Entry::and_modify) -> trusted helper opt_modify (may write any value, nothing else)",
}

# ------------------------------------------------------------------------------------------
# source access

_cache = {}
def load(relpath):
    path = os.path.join(REPO, "src", relpath)
    if path not in _cache:
        if not os.path.exists(path):
            raise LostAnchor("source file missing: src/%s" % relpath)
        src = open(path).read()
        toks = lex(src)
        _cache[path] = (src, toks, items(toks, 0, len(toks)))
    return _cache[path]

def find_item(relpath, kind, name, impl_sel=None):
    """kind 'fn': name 'Type::fn' or 'fn' ; optional impl_sel = regex on impl header."""
    src, toks, its = load(relpath)
    if kind != "fn" or "::" not in name:
        c = [i for i in its if i.kind == kind and i.name == name]
        if len(c) != 1:
            raise LostAnchor("%s %s not found (or ambiguous: %d) in src/%s" % (kind, name, len(c), relpath))
        return src, toks, c[0], None
    ty, fn = name.split("::")
    trait = None
    if ":" in ty:     # Trait:Type
        trait, ty = ty.split(":")
    cands = []
    for it in its:
        if it.kind != "impl": continue
        tr, head = impl_key(it.header)
        if head != ty: continue
        if trait is not None and tr != trait: continue
        if trait is None and tr is not None: continue
        if impl_sel and not re.search(impl_sel, it.header): continue
        for ch in it.children:
            if ch.kind == "fn" and ch.name == fn:
                cands.append((it, ch))
    if len(cands) != 1:
        raise LostAnchor("fn %s not found (or ambiguous: %d) in src/%s" % (name, len(cands), relpath))
    return src, toks, cands[0][1], cands[0][0]

# ------------------------------------------------------------------------------------------
# token helpers working on a token slice of one item

def strip_noise(toks):
    """R7: drop doc comments, ordinary comments are kept (harmless); drop attributes."""
    out = []
    k = 0
    n = len(toks)
    while k < n:
        t = toks[k]
        if t.kind == "doc":
            k += 1
            continue
        if t.kind == "punct" and t.text == "#":
            j = k + 1
            while j < n and toks[j].kind == "ws": j += 1
            if j < n and toks[j].kind == "punct" and toks[j].text == "!":
                j += 1
            if j < n and toks[j].kind == "punct" and toks[j].text == "[":
                k = match_close(toks, j) + 1
                continue
        out.append(t)
        k += 1
    return out

def retok(text):
    return lex(text)

def toks_text(toks):
    return "".join(t.text for t in toks)

def sigidx(toks):
    return [k for k, t in enumerate(toks) if t.kind not in ("ws", "comment", "doc")]

def pub_vis(text):
    """R7 visibility: pub(crate)/pub(super) -> pub"""
    return re.sub(r"\bpub\s*\(\s*(crate|super)\s*\)", "pub", text)

TABLE_PATH = re.compile(r"(table|table_l|table_r)$")

def rewrite_R1(text, in_table_impl):
    # local variables that hold the inner Vec (bound from into_inner()/as_mut()/as_ref()) are not Tables
    vec_names = set(re.findall(r"\blet\s+(?:mut\s+)?([A-Za-z_][A-Za-z0-9_]*)\s*(?::[^=;]*)?=\s*[^;]*?\.(?:into_inner|as_mut|as_ref)\(\)\s*;", text))
    toks = retok(text)
    out = []
    n = len(toks)
    s = sigidx(toks)
    pos = {k: i for i, k in enumerate(s)}
    def prev_sig(k, d=1):
        i = pos.get(k)
        if i is None or i - d < 0: return None
        return toks[s[i - d]]
    def next_sig(k, d=1):
        i = pos.get(k)
        if i is None or i + d >= len(s): return None
        return toks[s[i + d]]
    skip = set()
    for k, t in enumerate(toks):
        if k in skip:
            continue
        if t.kind == "punct" and t.text == "[":
            p = prev_sig(k)
            if p is not None:
                is_table = False
                if p.kind == "ident" and TABLE_PATH.search(p.text) and not (p.text in vec_names and (prev_sig(k, 2) is None or prev_sig(k, 2).text != ".")):
                    is_table = True
                elif p.kind == "ident" and p.text == "self" and in_table_impl:
                    is_table = True
                elif p.kind == "punct" and p.text == "?":
                    # X.as_ref()?[..]  where X is a table path
                    is_table = True
                if is_table:
                    out.append(".0")
        if t.kind == "punct" and t.text == "." :
            # X.as_ref() / X.as_mut() on a table path -> X.0   (only when X ends in `table`)
            p = prev_sig(k)
            a = next_sig(k)
            b = next_sig(k, 2)
            c = next_sig(k, 3)
            d = next_sig(k, 4)
            if (p is not None and p.kind == "ident" and TABLE_PATH.search(p.text)
                    and a is not None and a.text in ("as_ref", "as_mut")
                    and b is not None and b.text == "(" and c is not None and c.text == ")"
                    and not (d is not None and d.text == "?")):
                # `X.as_mut().f()` -> `X.0.f()` ; otherwise (value position) `&mut X.0` / `&X.0`:
                # the borrow is inserted in front of the path expression X
                if d is not None and d.text == ".":
                    out.append(".0")
                else:
                    # walk back over the path `a.b.c` already emitted
                    j = len(out) - 1
                    while j >= 0 and (re.match(r"^[A-Za-z_][A-Za-z0-9_]*$", out[j]) or out[j] == "." or out[j].strip() == ""):
                        j -= 1
                    # skip leading whitespace tokens of the path
                    j += 1
                    while j < len(out) and out[j].strip() == "": j += 1
                    out.insert(j, "&mut " if a.text == "as_mut" else "&")
                    out.append(".0")
                i = pos[k]
                for kk in range(k, s[i + 3] + 1):
                    skip.add(kk)
                continue
        out.append(t.text)
    return "".join(out)

def rewrite_R3(text):
    """(a, b) = e;  ->  let __tN = e; a = __tN.0; b = __tN.1;   (only at statement start)"""
    cnt = [0]
    def repl(m):
        names = [x.strip() for x in m.group(2).split(",")]
        cnt[0] += 1
        tv = "__t%d" % cnt[0]
        s = "%slet %s = %s;" % (m.group(1), tv, m.group(3))
        for i, nm in enumerate(names):
            if nm != "_" and nm != "":
                s += " %s = %s.%d;" % (nm, tv, i)
        return s
    return re.sub(r"(^|[;{}]\s*|\n\s*)\(([A-Za-z_][A-Za-z0-9_]*\s*(?:,\s*[A-Za-z_][A-Za-z0-9_]*\s*)*)\)\s*=\s*([^;=>][^;]*);",
                  repl, text)

def rewrite_R8(text):
    text = re.sub(r"\bunreachable!\s*\(\s*\)", "vstd::pervasive::unreached()", text)
    text = re.sub(r"\bdebug_assert!\s*\(", "assert(", text)
    return text

def rewrite_R10(text):
    """let-else with a single struct-pattern:  let PATH { a, .. } = EXPR else { BODY };"""
    pat = re.compile(r"let\s+([A-Za-z_:][A-Za-z0-9_:]*)\s*\{([^{}]*)\}\s*=\s*([^;]*?)\s*else\s*\{([^{}]*)\}\s*;", re.S)
    def repl(m):
        path, fields, expr, body = m.group(1), m.group(2), m.group(3), m.group(4)
        names = [f.strip() for f in fields.split(",") if f.strip() and f.strip() != ".."]
        binder = names[0] if len(names) == 1 else "(" + ", ".join(names) + ")"
        return "let %s = match %s { %s {%s} => %s, _ => {%s} };" % (binder, expr.strip(), path, fields, binder, body)
    return pat.sub(repl, text)

def rewrite_R14(text):
    """break-with-value:  `let X = loop { .. break E .. };` -> `let X; loop { .. { X = E; break; } .. }`
    and a `loop { .. break E .. }` in tail position -> `let __brk; loop { .. { __brk = E; break; } .. } __brk`"""
    toks = retok(text)
    # find a `loop` whose body contains `break <expr>` at its own nesting level (not inside an inner loop)
    for k, t in enumerate(toks):
        if not (t.kind == "ident" and t.text == "loop"): continue
        k0 = _next_sig_tok(toks, k)
        if not (toks[k0].kind == "punct" and toks[k0].text == "{"): continue
        k1 = match_close(toks, k0)
        has_val = False
        j = k0 + 1
        while j < k1:
            tj = toks[j]
            if tj.kind == "ident" and tj.text in ("loop", "while", "for"):
                # skip inner loop bodies
                jj = j + 1
                depth = 0
                while jj < k1 and not (toks[jj].kind == "punct" and toks[jj].text == "{" and depth == 0):
                    if toks[jj].kind == "punct" and toks[jj].text in ("(", "["): depth += 1
                    if toks[jj].kind == "punct" and toks[jj].text in (")", "]"): depth -= 1
                    jj += 1
                j = match_close(toks, jj) + 1 if jj < k1 else k1
                continue
            if tj.kind == "ident" and tj.text == "break":
                n1 = _next_sig_tok(toks, j)
                if not (toks[n1].kind == "punct" and toks[n1].text in (";", ",", "}")) and toks[n1].kind != "lifetime":
                    has_val = True
            j += 1
        if not has_val: continue
        # is it `let NAME = loop`?
        name = None
        pj = k - 1
        while pj >= 0 and toks[pj].kind in ("ws", "comment"): pj -= 1
        let_start = None
        if pj >= 0 and toks[pj].kind == "punct" and toks[pj].text == "=":
            pn = pj - 1
            while pn >= 0 and toks[pn].kind in ("ws", "comment"): pn -= 1
            pl = pn - 1
            while pl >= 0 and toks[pl].kind in ("ws", "comment"): pl -= 1
            if toks[pn].kind == "ident" and pl >= 0 and toks[pl].kind == "ident" and toks[pl].text == "let":
                name = toks[pn].text
                let_start = pl
        tail = name is None
        if tail: name = "__brk"
        out = []
        start = let_start if let_start is not None else k
        for x in toks[:start]: out.append(x.text)
        ty = ""
        if tail:
            mm = re.search(r"\)\s*->\s*([^{]+?)\s*(?:where[^{]*)?\{", text)
            if mm: ty = ": " + mm.group(1).strip()
        out.append("let %s%s; loop {" % (name, ty))
        j = k0 + 1
        while j < k1:
            tj = toks[j]
            if tj.kind == "ident" and tj.text == "break":
                e = j + 1
                depth = 0
                while e < k1:
                    tt = toks[e]
                    if tt.kind == "punct":
                        if tt.text in ("(", "[", "{"): depth += 1
                        elif tt.text in (")", "]", "}"):
                            if depth == 0: break
                            depth -= 1
                        elif tt.text in (",", ";") and depth == 0:
                            break
                    e += 1
                expr = toks_text(toks[j + 1:e]).strip()
                if expr == "":
                    out.append("break")
                else:
                    out.append("{ %s = %s; break; }" % (name, expr))
                j = e
                continue
            out.append(tj.text)
            j += 1
        out.append("}")
        j = k1 + 1
        if not tail:
            # drop the `;` that closed the let statement
            while j < len(toks) and toks[j].kind == "ws":
                out.append(toks[j].text); j += 1
            if j < len(toks) and toks[j].kind == "punct" and toks[j].text == ";":
                j += 1
        else:
            out.append(" " + name)
        for x in toks[j:]: out.append(x.text)
        return rewrite_R14("".join(out)) if False else "".join(out)
    return text

def _next_sig_tok(toks, k):
    k += 1
    while k < len(toks) and toks[k].kind in ("ws", "comment", "doc"):
        k += 1
    return k

def rewrite_R11(text):
    """vec![] -> Vec::new(); vec![a] -> vec1(a); vec![a, b] -> vec2(a, b)  (helpers with verified bodies in speclib/std_specs.rs)"""
    toks = retok(text)
    out = []
    k = 0
    n = len(toks)
    changed = False
    while k < n:
        t = toks[k]
        if t.kind == "ident" and t.text == "vec" and k + 2 < n and toks[k + 1].text == "!" and toks[k + 2].text == "[":
            close = match_close(toks, k + 2)
            inner = toks[k + 3:close]
            # split on top-level commas
            parts, cur, depth = [], [], 0
            for tt in inner:
                if tt.kind == "punct" and tt.text in ("(", "[", "{"): depth += 1
                elif tt.kind == "punct" and tt.text in (")", "]", "}"): depth -= 1
                if tt.kind == "punct" and tt.text == "," and depth == 0:
                    parts.append(cur); cur = []
                else:
                    cur.append(tt)
            if toks_text(cur).strip(): parts.append(cur)
            args = [rewrite_R11(toks_text(p).strip()) for p in parts]
            if len(args) == 0: out.append("Vec::new()")
            elif len(args) <= 2: out.append("vec%d(%s)" % (len(args), ", ".join(args)))
            else: raise LostAnchor("vec! literal with %d elements has no helper" % len(args))
            k = close + 1
            changed = True
            continue
        out.append(t.text)
        k += 1
    return "".join(out)

def rewrite_R17(text):
    """the unit is one flat module: crate-internal path prefixes are dropped (`map::Direction` -> `Direction`)"""
    return re.sub(r"\b(?:crate::)?(?:map|inner|trieview|set|prefix)::(?=[A-Z])", "", re.sub(r"\bcrate::(?=[A-Za-z_])", "", text))

def rewrite_R18(text):
    """`unsafe { e }` -> `{ e }`  (the marker has no run-time meaning; obligations of the callee are checked as usual)"""
    return re.sub(r"\bunsafe\s*\{", "{", text)

def rewrite_R12(text):
    """comparisons of masks go through the contract methods mask_cmp / mask_lt (`Self::R: PrimInt` has no Verus model)"""
    text = re.sub(r"([A-Za-z_][A-Za-z0-9_]*)\.mask\(\)\.cmp\(&([A-Za-z_][A-Za-z0-9_]*)\.mask\(\)\)", r"\1.mask_cmp(\2)", text)
    text = re.sub(r"([A-Za-z_][A-Za-z0-9_]*)\.mask\(\)\s*<\s*([A-Za-z_][A-Za-z0-9_]*)\.mask\(\)", r"\1.mask_lt(\2)", text)
    text = re.sub(r"([A-Za-z_][A-Za-z0-9_]*)\.mask\(\)\s*==\s*([A-Za-z_][A-Za-z0-9_]*)\.mask\(\)", r"\1.mask_eq(\2)", text)
    text = re.sub(r"([A-Za-z_][A-Za-z0-9_]*)\.mask\(\)\s*!=\s*([A-Za-z_][A-Za-z0-9_]*)\.mask\(\)", r"!\1.mask_eq(\2)", text)
    text = re.sub(r"([A-Za-z_][A-Za-z0-9_]*)\.mask\(\)\s*>\s*([A-Za-z_][A-Za-z0-9_]*)\.mask\(\)", r"\2.mask_lt(\1)", text)
    # comparisons of representations (never present in /repo; makes such a change decidable, see speclib/base.rs)
    ID = r"((?<![A-Za-z0-9_\.\]])[A-Za-z_][A-Za-z0-9_]*(?:\.[A-Za-z0-9_]+|\[[^\]\n]*\])*)"
    def arg(y): return y if re.fullmatch(r"[A-Za-z_][A-Za-z0-9_]*", y) else "&" + y
    text = re.sub(ID + r"\.repr\(\)\.cmp\(&" + ID + r"\.repr\(\)\)", lambda m: "%s.repr_cmp(%s)" % (m.group(1), arg(m.group(2))), text)
    text = re.sub(ID + r"\.repr\(\)\s*==\s*" + ID + r"\.repr\(\)", lambda m: "%s.repr_eq(%s)" % (m.group(1), arg(m.group(2))), text)
    text = re.sub(ID + r"\.repr\(\)\s*!=\s*" + ID + r"\.repr\(\)", lambda m: "!%s.repr_eq(%s)" % (m.group(1), arg(m.group(2))), text)
    text = re.sub(ID + r"\.repr\(\)\s*<\s*" + ID + r"\.repr\(\)", lambda m: "%s.repr_lt(%s)" % (m.group(1), arg(m.group(2))), text)
    text = text.replace("std::cmp::Ordering::", "core::cmp::Ordering::")
    return text

def rewrite_R24(text):
    """`for PAT in X { B }` and `X.into_iter().for_each(|PAT| { B });` over a generic `X: IntoIterator` become the loop
    that the language (for) / the default method (Iterator::for_each) define them as:
        let mut it__ = into_iter_model(X); loop { match src_next(&mut it__) { None => { break; } Some(PAT) => { B } } }
    into_iter_model / src_next are TRUSTED one-line wrappers of IntoIterator::into_iter / Iterator::next (speclib/std_specs.rs).
    Line structure is preserved."""
    toks = retok(text)
    s = sigidx(toks)
    OPENS, CLOSES = ("(", "[", "{"), (")", "]", "}")
    edits = []
    def head(x, pat):
        return "let mut it__ = into_iter_model(%s); loop { match src_next(&mut it__) { None => { break; } Some(%s) => {" % (x, pat)
    for a, k in enumerate(s):
        t = toks[k]
        if t.kind == "ident" and t.text == "for":
            j = a + 1; depth = 0; kin = None
            while j < len(s):
                tt = toks[s[j]]
                if tt.kind == "punct" and tt.text in ("{", ";") and depth == 0: break
                if tt.kind == "punct" and tt.text in OPENS: depth += 1
                elif tt.kind == "punct" and tt.text in CLOSES: depth -= 1
                elif tt.kind == "ident" and tt.text == "in" and depth == 0: kin = j; break
                j += 1
            if kin is None or kin + 2 >= len(s): continue
            if toks[s[kin + 1]].kind == "ident" and toks[s[kin + 2]].kind == "punct" and toks[s[kin + 2]].text == "{":
                x = toks[s[kin + 1]].text
                pat = text[toks[s[a + 1]].start:toks[s[kin]].start].strip()
                kopen = s[kin + 2]; kclose = match_close(toks, kopen)
                edits.append((t.start, toks[kopen].start + 1, head(x, pat)))
                edits.append((toks[kclose].start, toks[kclose].start + 1, "} } }"))
        elif t.kind == "ident" and t.text == "for_each" and a >= 6:
            seq = [toks[s[a - d]].text for d in range(6, 0, -1)]
            if seq[1:] != [".", "into_iter", "(", ")", "."] or toks[s[a - 6]].kind != "ident": continue
            if a + 2 >= len(s) or toks[s[a + 1]].text != "(" or toks[s[a + 2]].text != "|": continue
            j = a + 3; depth = 0
            while j < len(s):
                tt = toks[s[j]]
                if tt.kind == "punct" and tt.text in OPENS: depth += 1
                elif tt.kind == "punct" and tt.text in CLOSES: depth -= 1
                elif tt.kind == "punct" and tt.text == "|" and depth == 0: break
                j += 1
            if j + 1 >= len(s) or toks[s[j + 1]].text != "{": continue
            pat = text[toks[s[a + 3]].start:toks[s[j]].start].strip()
            kopen = s[j + 1]; kclose = match_close(toks, kopen)
            kparen_close = match_close(toks, s[a + 1])
            edits.append((toks[s[a - 6]].start, toks[kopen].start + 1, head(toks[s[a - 6]].text, pat)))
            edits.append((toks[kclose].start, toks[kparen_close].start + 1, "} } }" + "\n" * text[toks[kclose].start:toks[kparen_close].start + 1].count("\n")))
    for (b, e, r) in sorted(edits, reverse=True):
        r = r + "\n" * (text[b:e].count("\n") - r.count("\n"))
        text = text[:b] + r + text[e:]
    return text

def rewrite_R2(text):
    # `PATH.get_mut(ARG)` -> `&PATH.0[ARG]` (ARG with balanced parentheses); the enclosing `unsafe { .. }` is removed by R18
    out = []; i = 0
    rx = re.compile(r"([A-Za-z_][A-Za-z0-9_\.]*?(?:\.as_ref\(\)\?)?)\s*\.get_mut\(")
    while True:
        m = rx.search(text, i)
        if not m: out.append(text[i:]); break
        j = m.end(); depth = 1
        while j < len(text) and depth > 0:
            if text[j] == "(": depth += 1
            elif text[j] == ")": depth -= 1
            j += 1
        out.append(text[i:m.start()]); out.append("&%s.0[%s]" % (m.group(1), text[m.end():j - 1].strip()))
        i = j
    text = "".join(out)
    text = re.sub(r"&\s*('[a-z_]+\s+)?mut\s+(?!self\b)", lambda m: "&" + (m.group(1) or ""), text)
    text = text.replace(".as_mut()", ".as_ref()")
    text = text.replace("prefix_value_mut", "prefix_value")
    return text

# ------------------------------------------------------------------------------------------
# contract store

class Clause:
    def __init__(self, kind, tags, text, src_line):
        self.kind, self.tags, self.text, self.src_line = kind, tags, text, src_line

class FnSpec:
    def __init__(self, file, name, line):
        self.file, self.name, self.line = file, name, line
        self.ret = None
        self.clauses = []         # requires / ensures / decreases (function level)
        self.loops = {}           # ordinal -> list[Clause] (invariant / decreases / invariant_except_break / ensures)
        self.ats = []             # (where, arg, text, line)
        self.closures = {}        # ordinal -> header text
        self.opts = {}
        self.rewrites = []        # (regex, repl, count, why)
        self.emit_name = None
        self.impl_header = None
        self.impl_sel = None

class Unit:
    def __init__(self, name):
        self.name = name
        self.speclib = []
        self.entries = []         # ("struct"/"enum"/"fn"/"raw", ...)
        self.verify_speclib = False
        self.spec_path = None

_TAG = re.compile(r"^\s*\[([^\]]*)\]\s*")

def parse_unit(path):
    u = Unit(os.path.splitext(os.path.basename(path))[0])
    u.spec_path = path
    lines = open(path).read().split("\n")
    i = 0
    cur = None
    def collect(i):
        """collect continuation lines (indented more than the directive, or blank) """
        buf = []
        while i < len(lines) and (lines[i].startswith("    ") or lines[i].startswith("\t") or lines[i].strip() == ""):
            if lines[i].startswith("==="): break
            buf.append(lines[i])
            i += 1
        while buf and buf[-1].strip() == "": buf.pop()
        return "\n".join(buf), i
    while i < len(lines):
        ln = lines[i]
        s = ln.strip()
        if s == "" or s.startswith("#"):
            i += 1; continue
        if s == "verify_speclib":
            u.verify_speclib = True
            i += 1; cur = None; continue
        if s.startswith("include "):
            parts_ = s.split()
            sub = parse_unit(os.path.join(os.path.dirname(path), parts_[1]))
            if "contract_only" in parts_[2:]:
                for e in sub.entries:
                    if e[0] == "fn":
                        e[1].opts["contract_only"] = True
            u.entries += sub.entries
            i += 1; cur = None; continue
        if s.startswith("speclib "):
            ws_ = s.split()[1:]
            force = "verify" in ws_
            for f in ws_:
                if f == "verify": continue
                u.entries.append(("speclib", f, force))
            i += 1; cur = None; continue
        if s.startswith("==="):
            parts = s[3:].split()
            kind = parts[0]
            if kind in ("struct", "enum"):
                mode = parts[3] if len(parts) > 3 else "extract"
                body, i2 = collect(i + 1)
                u.entries.append((kind, parts[1], parts[2], mode, body, i + 1))
                i = i2; cur = None; continue
            if kind == "raw":
                body, i2 = collect(i + 1)
                u.entries.append(("raw", " ".join(parts[1:]), body, i + 1))
                i = i2; cur = None; continue
            if kind == "fn":
                cur = FnSpec(parts[1], parts[2], i + 1)
                for opt in parts[3:]:
                    if "=" in opt:
                        k, v = opt.split("=", 1); cur.opts[k] = v
                    else:
                        cur.opts[opt] = True
                u.entries.append(("fn", cur))
                i += 1; continue
            raise ValueError("%s:%d unknown entry %s" % (path, i + 1, kind))
        if cur is None:
            raise ValueError("%s:%d directive outside fn block: %s" % (path, i + 1, s))
        # directives inside a fn block (not indented by 4)
        m = re.match(r"(\w+\??)\s*(.*)$", s)
        d, rest = m.group(1), m.group(2)
        more, i2 = collect(i + 1)
        full = rest + ("\n" + more if more else "")
        if d == "ret":
            cur.ret = rest.strip()
        elif d in ("requires", "ensures", "decreases", "returns"):
            tg = _TAG.match(full)
            tags = []
            if tg:
                tags = tg.group(1).split(","); full = full[tg.end():]
            cur.clauses.append(Clause(d, [t.strip() for t in tags], full, i + 1))
        elif d == "loop":
            m2 = re.match(r"(\d+)\s+(\w+)\s*(.*)$", full, re.S)
            k, sub, body = int(m2.group(1)), m2.group(2), m2.group(3)
            tg = _TAG.match(body)
            tags = []
            if tg:
                tags = tg.group(1).split(","); body = body[tg.end():]
            cur.loops.setdefault(k, []).append(Clause(sub, [t.strip() for t in tags], body, i + 1))
        elif d == "at":
            # at body_start | at loop K start | at before /re/ [#n] | at after /re/ [#n] | at end
            # alternatives: `at A ||| B [tags]:` - the first anchor that resolves is used (the same hint for two
            # equivalent ways of writing the code, e.g. `match .. { None => .. }` and `if let .. else { .. }`)
            WH = r"(body_start|fn_end|exits|loop\s+\d+\s+start|loop\s+\d+\s+end|loop\s+\d+\s+after|arm\s+/.*?/(?:\s*#\d+)?\s+(?:start|end)|block\s+/.*?/(?:\s*#\d+)?\s+(?:start|end|else_start|else_end)|before\s+/.*?/(?:\s*#\d+)?|after\s+/.*?/(?:\s*#\d+)?|stmt_after\s+/.*?/(?:\s*#\d+)?)"
            alts = []
            rest_ = full
            while True:
                ma = re.match(WH + r"\s+\|\|\|\s+", rest_, re.S)
                if not ma: break
                alts.append(ma.group(1)); rest_ = rest_[ma.end():]
            m2 = re.match(WH + r"\s*(?:\[([^\]]*)\])?\s*:?\s*(.*)$", rest_, re.S)
            if not m2:
                raise ValueError("%s:%d bad at-directive" % (path, i + 1))
            cur.ats.append((" ||| ".join(alts + [m2.group(1)]), m2.group(3), i + 1, [x.strip() for x in (m2.group(2) or "").split(",") if x.strip()]))
        elif d == "closure":
            m2 = re.match(r"(\d+)\s*:?\s*(.*)$", full, re.S)
            cur.closures[int(m2.group(1))] = m2.group(2)
        elif d in ("rewrite", "rewrite?"):
            # rewrite /regex/ => replacement   # why      (`rewrite?`: optional - applied where the pattern occurs, no lost anchor otherwise)
            m2 = re.match(r"/(.*?)/\s*=>\s*(.*?)\s*(?:##\s*(.*))?$", full, re.S)
            cur.rewrites.append((m2.group(1), m2.group(2), (m2.group(3) or "") + ("@@optional" if d.endswith("?") else "")))
        elif d == "item":
            cur.opts["item"] = rest.strip()
        elif d == "attr":
            cur.opts.setdefault("attrs", []).append(rest.strip())
        elif d == "name":
            cur.emit_name = rest.strip()
        elif d == "impl":
            cur.impl_header = full.strip()
        elif d == "impl_sel":
            cur.impl_sel = rest.strip()
        else:
            raise ValueError("%s:%d unknown directive %s" % (path, i + 1, d))
        i = i2
    return u

# ------------------------------------------------------------------------------------------
# emission

class Out:
    def __init__(self):
        self.lines = []
        self.map = []      # parallel: origin tuples
    def add(self, text, origin):
        for l in text.split("\n"):
            self.lines.append(l)
            self.map.append(origin)
    def add_repo(self, text, relpath, first_line):
        for k, l in enumerate(text.split("\n")):
            self.lines.append(l)
            self.map.append(("repo", relpath, first_line + k))

def split_signature(toks, fn_item_toks_from, body_open_rel):
    pass

def find_loops(toks):
    """token indices (into toks) of `loop`/`while`/`for` keywords in textual order, with the index of their body '{'."""
    res = []
    s = sigidx(toks)
    for ii, k in enumerate(s):
        t = toks[k]
        if t.kind == "ident" and t.text in ("loop", "while", "for"):
            # `for` in `impl X for Y` or HRTB does not occur inside fn bodies we extract; `for<'a>` excluded
            if t.text == "for" and ii + 1 < len(s) and toks[s[ii + 1]].text == "<":
                continue
            # find body '{' : first '{' at paren depth 0 after the keyword that is not part of a struct literal.
            j = ii + 1
            depth = 0
            body = None
            while j < len(s):
                tt = toks[s[j]]
                if tt.kind == "punct":
                    if tt.text in ("(", "["): depth += 1
                    elif tt.text in (")", "]"): depth -= 1
                    elif tt.text == "{" and depth == 0:
                        body = s[j]; break
                j += 1
            if body is None:
                raise LostAnchor("loop without body")
            res.append((k, body))
    return res

_EXITS_SEEN = {}
_EXITS = None
def _exits():
    global _EXITS
    if _EXITS is None:
        try: _EXITS = json.load(open(os.path.join(VERIF, "contracts", "exits.json")))
        except Exception: _EXITS = {}
    return _EXITS

def find_closures(toks):
    """closures introduced by `|` after one of ( , = move return  or  `||`"""
    res = []
    s = sigidx(toks)
    for ii, k in enumerate(s):
        t = toks[k]
        if t.kind == "punct" and t.text in ("|", "||"):
            prev = toks[s[ii - 1]] if ii > 0 else None
            if prev is None: continue
            if (prev.kind == "punct" and prev.text in ("(", ",", "=", "{", ";")) or (prev.kind == "ident" and prev.text in ("move", "return")):
                if t.text == "||":
                    res.append((k, k)); continue
                # find closing |
                j = ii + 1
                while j < len(s) and not (toks[s[j]].kind == "punct" and toks[s[j]].text == "|"):
                    j += 1
                res.append((k, s[j]))
    return res

def _next_sig(toks, k):
    k += 1
    while k < len(toks) and toks[k].kind in ("ws", "comment", "doc"):
        k += 1
    return k

def block_end_tok(body, k_open, unit_block=False):
    """(unit_block: the block is a loop body, so a block-like tail expression has unit type and the end is after it)
    token index before which an `end` hint of the block body[k_open]=='{' is inserted:
    the first token of the tail expression, or the closing brace when the block ends with a statement."""
    k_close = match_close(body, k_open)
    depth = 0
    last_end = k_open          # token index of the end of the last complete statement
    last_stmt_start = None
    has_else = [False]
    stmt_start = _next_sig(body, k_open)
    k = k_open + 1
    while k < k_close:
        t = body[k]
        if t.kind == "punct":
            if t.text in ("(", "[", "{"):
                kk = match_close(body, k)
                if t.text == "{":
                    nxt = _next_sig(body, kk)
                    nt = body[nxt]
                    if nt.kind == "ident" and nt.text == "else": has_else[0] = True
                    cont = (nt.kind == "ident" and nt.text == "else") or (nt.kind == "punct" and nt.text in (".", "?", ";", ",")) \
                        or (nt.kind == "punct" and nt.text in ("==", "!=", "&&", "||", "+", "-", "*", "/", "<", ">", "<=", ">=", "=>", "as"))
                    # a block that is the body of `match x {..}` / `if c {..}` / `loop {..}` ... ends a statement when
                    # followed by the start of something new
                    first = body[stmt_start]
                    blocklike = first.kind == "ident" and first.text in ("if", "match", "loop", "while", "for", "unsafe") or first.text == "{"
                    if not cont and blocklike:
                        if nxt == k_close:
                            # block-like element in tail position: it is the tail expression -- except for
                            # `while`/`for` loops, which have unit type: the end position is after them
                            if first.text in ("while", "for") or unit_block:
                                return k_close
                            if first.text == "if" and not has_else[0]:
                                return k_close       # `if` without `else` has unit type
                            return stmt_start
                        last_end = kk
                        last_stmt_start = stmt_start
                        stmt_start = nxt
                        has_else[0] = False
                k = kk + 1
                continue
            if t.text == ";":
                last_end = k
                last_stmt_start = stmt_start
                stmt_start = _next_sig(body, k)
                has_else[0] = False
        k += 1
    first_tail = _next_sig(body, last_end)
    if first_tail < k_close:
        return first_tail
    # the block ends with a statement; if that statement is a `return`, the end position is before it
    if last_stmt_start is not None and body[last_stmt_start].kind == "ident" and body[last_stmt_start].text == "return":
        return last_stmt_start
    return k_close

def find_block_after(body, char_pos, base):
    """first '{' token at paren depth 0 at or after character offset char_pos (offset relative to body text)"""
    depth = 0
    for k, t in enumerate(body):
        if t.start - base < char_pos: continue
        if t.kind == "punct":
            if t.text in ("(", "["): depth += 1
            elif t.text in (")", "]"): depth -= 1
            elif t.text == "{" and depth <= 0:
                return k
    return None

def exit_points(body, k_open):
    """token indices before which an `exits` hint goes: the leaf tail positions of the block body[k_open]"""
    t = block_end_tok(body, k_open)
    k_close = match_close(body, k_open)
    if t >= k_close:
        return [t]
    first = body[t]
    if first.kind == "ident" and first.text == "if":
        pts = []
        k = t
        while True:
            # find the block of this `if` (first '{' at paren depth 0)
            depth = 0
            kb_ = None
            j = k + 1
            while j < k_close:
                tt = body[j]
                if tt.kind == "punct":
                    if tt.text in ("(", "["): depth += 1
                    elif tt.text in (")", "]"): depth -= 1
                    elif tt.text == "{" and depth <= 0:
                        kb_ = j; break
                j += 1
            if kb_ is None:
                return [t]
            pts += exit_points(body, kb_)
            kc = match_close(body, kb_)
            ke = _next_sig(body, kc)
            if ke < k_close and body[ke].kind == "ident" and body[ke].text == "else":
                kn = _next_sig(body, ke)
                if body[kn].kind == "ident" and body[kn].text == "if":
                    k = kn
                    continue
                if body[kn].kind == "punct" and body[kn].text == "{":
                    pts += exit_points(body, kn)
                    return pts
                return [t]
            # `if` without else in tail position: unit type, hint after it is fine
            return pts + [k_close]
    return [t]

def emit_fn(out, u, fs, rules_used):
    src, ftoks, it, impl = find_item(fs.file, "fn", fs.name, fs.impl_sel)
    first_line = it.line(src)
    text = it.text(src)
    in_table_impl = impl is not None and impl_key(impl.header)[1] == "Table"
    # ---- rewrites on the raw text (line structure preserved: rewrites never add/remove newlines) ----
    toks = strip_noise(retok(text))
    text1 = toks_text(toks)
    if text1 != text: rules_used.add("R7")
    t2 = pub_vis(text1)
    if t2 != text1: rules_used.add("R7")
    text1 = t2
    r1 = (lambda t: t) if fs.opts.get("table_is_vec") else (lambda t: rewrite_R1(t, in_table_impl))
    for rule, fnr in (("R1", r1), ("R3", rewrite_R3), ("R8", rewrite_R8), ("R10", rewrite_R10), ("R14", rewrite_R14), ("R11", rewrite_R11), ("R17", rewrite_R17), ("R12", rewrite_R12)):
        t2 = fnr(text1)
        if t2 != text1: rules_used.add(rule)
        text1 = t2
    if fs.opts.get("demote"):
        t2 = rewrite_R2(text1)
        if t2 != text1: rules_used.add("R2")
        text1 = t2
    if fs.opts.get("iter_model"):
        t2 = rewrite_R24(text1)
        if t2 == text1:
            raise LostAnchor("fn %s: no `for .. in <ident>` / `<ident>.into_iter().for_each(|..| {..})` found (rule R24)" % fs.name)
        rules_used.add("R24"); text1 = t2
    for rule, fnr in (("R18", rewrite_R18),):
        t2 = fnr(text1)
        if t2 != text1: rules_used.add(rule)
        text1 = t2
    for (rx, rp, why) in fs.rewrites:
        t2, nsub = re.subn(rx, rp, text1, flags=re.S)
        optional = why.endswith("@@optional")
        why = why.replace("@@optional", "")
        if nsub == 0:
            if optional: continue
            raise LostAnchor("rewrite /%s/ of %s matched nothing" % (rx, fs.name))
        rules_used.add("Rx:%s:%s" % (fs.name, why or rx))
        text1 = t2
    toks = retok(text1)
    s = sigidx(toks)
    # ---- signature: from `fn` to body '{' ----
    # locate 'fn' keyword
    kfn = next(k for k in s if toks[k].kind == "ident" and toks[k].text == "fn")
    # param list '(' : first '(' after fn name/generics at angle depth 0
    k = kfn
    depth_angle = 0
    kparen = None
    for k in s[s.index(kfn) + 1:]:
        tt = toks[k]
        if tt.kind == "punct":
            if tt.text == "<": depth_angle += 1
            elif tt.text == ">": depth_angle -= 1
            elif tt.text == ">>": depth_angle -= 2
            elif tt.text == "(" and depth_angle == 0:
                kparen = k; break
    kparen_close = match_close(toks, kparen)
    # body '{'
    kbody = None
    k = kparen_close + 1
    while k < len(toks):
        tt = toks[k]
        if tt.kind == "punct":
            if tt.text in ("(", "["): k = match_close(toks, k)
            elif tt.text == "{": kbody = k; break
        k += 1
    if kbody is None:
        raise LostAnchor("fn %s has no body" % fs.name)
    kbody_close = match_close(toks, kbody)
    sig_toks = toks[:kbody]
    # return type
    sig_after = toks[kparen_close + 1:kbody]
    sig_after_text = toks_text(sig_after)
    ret_name = fs.ret
    where_text = ""
    ret_text = ""
    # split `-> TYPE where ...`
    sa = sigidx(sig_after)
    arrow = None
    for kk in sa:
        if sig_after[kk].kind == "punct" and sig_after[kk].text == "->":
            arrow = kk; break
        if sig_after[kk].kind == "ident" and sig_after[kk].text == "where":
            break
    wherek = None
    depth = 0
    for kk in sa:
        tt = sig_after[kk]
        if tt.kind == "punct" and tt.text in ("(", "[", "<"): depth += 1
        elif tt.kind == "punct" and tt.text in (")", "]", ">"): depth -= 1
        elif tt.kind == "ident" and tt.text == "where" and depth <= 0:
            wherek = kk; break
    if wherek is not None:
        where_text = toks_text(sig_after[wherek:]).strip()
        before_where = sig_after[:wherek]
    else:
        before_where = sig_after
    if arrow is not None:
        ret_text = toks_text(before_where[arrow + 1:]).strip()
    head = toks_text(toks[:kparen_close + 1])
    # visibility: make everything pub (R7) so that spec fns can mention it
    head = re.sub(r"^\s*(pub\s+)?", "pub ", head, count=1)
    head = head.replace("pub unsafe fn", "pub fn").replace("pub pub", "pub")
    if fs.emit_name:
        head = re.sub(r"\bfn\s+(?:%s|%s)\b" % (re.escape(it.name), re.escape(it.name.replace("prefix_value_mut", "prefix_value"))), "fn " + fs.emit_name, head, count=1)
    if fs.opts.get("demote"):
        pass
    sig_line = head
    if ret_text:
        if fs.opts.get("item"):
            ret_text = ret_text.replace("Self::Item", fs.opts["item"])
        sig_line += " -> (%s: %s)" % (ret_name or "ret", ret_text) if True else ""
    elif ret_name:
        pass
    if where_text:
        sig_line += "\n    " + where_text
    if fs.opts.get("contract_only"):
        out.add("#[verifier::external_body] // contract of %s assumed here; it is verified in its home unit" % fs.name, ("contract_only", fs.name))
    elif fs.opts.get("trusted"):
        out.add("#[verifier::external_body] // TRUSTED contract of %s: body not verified (dropped from the unit)" % fs.name, ("trusted", fs.name))
    for a in fs.opts.get("attrs", []):
        if fs.opts.get("contract_only") and "spinoff" in a: continue
        out.add(a, ("glue",))
    # line accounting: the signature occupies original lines first_line .. line_of(kbody)
    out.add_repo(sig_line, fs.file, first_line)
    def emit_clause_group(clauses, kinds_order, indent):
        # tooling only (tools/dep_audit.py): VERIF_DROP_CLAUSE="<fn>#<k>" leaves out the k-th `ensures` clause of <fn>, to find
        # out which other obligations are proved from it
        drop = os.environ.get("VERIF_DROP_CLAUSE", "")
        if drop and drop.rsplit("#", 1)[0] == "%s::%s" % (fs.file, fs.name):
            ens = [c for c in clauses if c.kind == "ensures"]
            kk = int(drop.rsplit("#", 1)[1])
            if kk < len(ens): clauses = [c for c in clauses if c is not ens[kk]]
        for kind in kinds_order:
            cs = [c for c in clauses if c.kind == kind]
            if not cs: continue
            out.add(indent + kind, ("glue",))
            for c in cs:
                cid = "%s@%s" % ("+".join(c.tags) if c.tags else kind, fs.name)
                txt = c.text.rstrip()
                if not txt.rstrip().endswith(","): txt += ","
                out.add(indent + "    " + txt.replace("\n", "\n" + indent), ("clause", u.name, fs.name, kind, c.tags, c.src_line, cid))
    if fs.opts.get("probe"):
        emit_clause_group([c for c in fs.clauses if c.kind == "requires"] + [Clause("ensures", ["PROBE.%s" % fs.name], "false", 0)], ("requires", "ensures"), "    ")
        out.add("{ probe_any() }", ("glue",))
        return
    emit_clause_group(fs.clauses, ("requires", "ensures", "returns", "decreases"), "    ")
    if fs.opts.get("contract_only") or fs.opts.get("trusted"):
        out.add("{ unimplemented!() }", ("glue",))
        return
    # ---- body with splices ----
    body = toks[kbody:kbody_close + 1]
    body_first_line = first_line + text1.count("\n", 0, toks[kbody].start)
    # compute splice insertions as (token_index_in_body, 'before'/'after', text, origin)
    ins = []   # (pos_char_offset_in_body_text, text, origin)
    btext = toks_text(body)
    base = body[0].start
    def off(tok): return tok.start - base
    # loops
    loops = find_loops(body)
    for kk, cl in fs.loops.items():
        if kk >= len(loops):
            raise LostAnchor("fn %s: loop %d not found (%d loops)" % (fs.name, kk, len(loops)))
    nloops_decl = fs.opts.get("loops")
    if nloops_decl is not None and int(nloops_decl) != len(loops):
        raise LostAnchor("fn %s: expected %s loops, found %d" % (fs.name, nloops_decl, len(loops)))
    for kk, cls in fs.loops.items():
        kw, lb = loops[kk]
        lines_ = []
        for kind in ("invariant_except_break", "invariant", "ensures", "decreases"):
            cs = [c for c in cls if c.kind == kind]
            if not cs: continue
            lines_.append(("        " + kind, ("glue",)))
            for c in cs:
                cid = "%s@%s#loop%d" % ("+".join(c.tags) if c.tags else kind, fs.name, kk)
                txt = c.text.rstrip()
                if not txt.endswith(","): txt += ","
                lines_.append(("            " + txt, ("clause", u.name, fs.name, "loop%d.%s" % (kk, kind), c.tags, c.src_line, cid)))
        ins.append((off(body[lb]), "before", lines_))
    def place(where, block):
            if where == "body_start":
                ins.append((off(body[0]) + 1, "after", block))
            elif where == "fn_end":
                ins.append((off(body[block_end_tok(body, 0)]), "before", block))
            elif where == "exits":
                # before every `return` (not inside closures) and before the tail of the function body
                cl_ranges = []
                for (a, b) in find_closures(body):
                    cl_ranges.append(a)
                for kx, tx in enumerate(body):
                    if tx.kind == "ident" and tx.text == "return":
                        ins.append((off(tx), "before", block))
                for kx in exit_points(body, 0):
                    ins.append((off(body[kx]), "before", block))
            elif where.startswith("loop"):
                kk = int(where.split()[1])
                if kk >= len(loops):
                    raise LostAnchor("fn %s: loop %d not found" % (fs.name, kk))
                if where.split()[2] == "start":
                    ins.append((off(body[loops[kk][1]]) + 1, "after", block))
                elif where.split()[2] == "after":
                    kc = match_close(body, loops[kk][1])
                    ins.append((off(body[kc]) + 1, "after", block))
                else:
                    ins.append((off(body[block_end_tok(body, loops[kk][1], unit_block=True)]), "before", block))
                    # the end of the loop body is also reached by `continue` (of this loop, not of a nested one)
                    kopen = loops[kk][1]; kclose = match_close(body, kopen)
                    nested = [(lb2, match_close(body, lb2)) for (kw2, lb2) in loops if kopen < lb2 < kclose]
                    for kx in range(kopen + 1, kclose):
                        tx = body[kx]
                        if tx.kind == "ident" and tx.text == "continue" and not any(a < kx < b for a, b in nested):
                            ins.append((off(tx), "before", block))
            elif where.startswith("arm") or where.startswith("block"):
                m = re.match(r"(arm|block)\s+/(.*?)/(?:\s*#(\d+))?\s+(\w+)$", where, re.S)
                kind_, rx, nth, pos_ = m.group(1), m.group(2), int(m.group(3) or 1), m.group(4)
                ms = list(re.finditer(rx, btext))
                if len(ms) < nth:
                    raise LostAnchor("fn %s: anchor /%s/ #%d not found" % (fs.name, rx, nth))
                mm = ms[nth - 1]
                if kind_ == "arm":
                    # advance to `=>`
                    karrow = None
                    depth = 0
                    for kx, tx in enumerate(body):
                        if tx.start - base < mm.start(): continue
                        if tx.kind == "punct":
                            if tx.text in ("(", "[", "{"): depth += 1
                            elif tx.text in (")", "]", "}"): depth -= 1
                            elif tx.text == "=>" and depth <= 0:
                                karrow = kx; break
                    if karrow is None:
                        raise LostAnchor("fn %s: arm /%s/ has no =>" % (fs.name, rx))
                    kb_ = _next_sig(body, karrow)
                    if body[kb_].kind == "punct" and body[kb_].text == "{":
                        if pos_ == "start":
                            ins.append((off(body[kb_]) + 1, "after", block))
                        else:
                            ins.append((off(body[block_end_tok(body, kb_)]), "before", block))
                    else:
                        # expression arm `PAT => expr,` : wrap into a block
                        e = kb_
                        depth = 0
                        while e < len(body):
                            tt = body[e]
                            if tt.kind == "punct":
                                if tt.text in ("(", "[", "{"): depth += 1
                                elif tt.text in (")", "]", "}"):
                                    if depth == 0: break
                                    depth -= 1
                                elif tt.text == "," and depth == 0:
                                    break
                            e += 1
                        ins.append((off(body[kb_]), "before", [("{", ("glue",))] + block))
                        ins.append((off(body[e]), "before", [("}", ("glue",))]))
                else:
                    kb_ = find_block_after(body, mm.end(), base)
                    if kb_ is None:
                        raise LostAnchor("fn %s: block after /%s/ not found" % (fs.name, rx))
                    if pos_.startswith("else"):
                        kc = match_close(body, kb_)
                        ke = _next_sig(body, kc)
                        if not (body[ke].kind == "ident" and body[ke].text == "else"):
                            raise LostAnchor("fn %s: block /%s/ has no else" % (fs.name, rx))
                        kb_ = _next_sig(body, ke)
                        if not (body[kb_].kind == "punct" and body[kb_].text == "{"):
                            raise LostAnchor("fn %s: else of /%s/ is not a block" % (fs.name, rx))
                    if pos_.endswith("start"):
                        ins.append((off(body[kb_]) + 1, "after", block))
                    else:
                        ins.append((off(body[block_end_tok(body, kb_)]), "before", block))
            else:
                m = re.match(r"(before|after|stmt_after)\s+/(.*?)/(?:\s*#(\d+))?$", where, re.S)
                mode, rx, nth = m.group(1), m.group(2), int(m.group(3) or 1)
                ms = list(re.finditer(rx, btext))
                if len(ms) < nth:
                    raise LostAnchor("fn %s: anchor /%s/ #%d not found" % (fs.name, rx, nth))
                mm = ms[nth - 1]
                if mode == "before":
                    ins.append((mm.start(), "before", block))
                elif mode == "after":
                    ins.append((mm.end(), "after", block))
                else:
                    # after the end of the statement containing the match: next ';' at same nesting
                    j = mm.end()
                    if btext[mm.start():mm.end()].rstrip().endswith(";"):
                        j = mm.end() - 1
                    depth = 0
                    while j < len(btext):
                        ch = btext[j]
                        if ch in "([{": depth += 1
                        elif ch in ")]}": depth -= 1
                        elif ch == ";" and depth <= 0:
                            break
                        j += 1
                    ins.append((j + 1, "after", block))
    for (where_all, txt, sline, htags) in fs.ats:
        origin = ("hint", u.name, fs.name, where_all, sline, htags)
        block = [("        " + l, origin) for l in txt.split("\n")]
        err = None
        for w in where_all.split(" ||| "):
            n0 = len(ins)
            try:
                place(w.strip(), block); err = None; break
            except LostAnchor as e:
                del ins[n0:]; err = e
        if err is not None: raise err
    # closures (R5)
    if fs.closures:
        cl = find_closures(body)
        for kk, hdr in fs.closures.items():
            if len(cl) == 0:
                continue        # the function was rewritten without closures: nothing to annotate
            if kk >= len(cl):
                raise LostAnchor("fn %s: closure %d not found" % (fs.name, kk))
            a, b = cl[kk]
            # body of the closure: a block, or an expression that is wrapped into a block
            j = b + 1
            while body[j].kind in ("ws", "comment"): j += 1
            # R13: a tuple pattern parameter `|(a, b)|` becomes `|v: ..| { let (a, b) = v; .. }`
            orig_params = toks_text(body[a + 1:b]).strip()
            let_stmt = ""
            if orig_params.startswith("("):
                var = re.match(r"\|\s*([A-Za-z_][A-Za-z0-9_]*)\s*:", hdr)
                if not var:
                    raise LostAnchor("fn %s: closure %d has a pattern parameter, header must name one variable" % (fs.name, kk))
                let_stmt = " let %s = %s;" % (orig_params, var.group(1))
                rules_used.add("R13")
            else:
                # the contract store names the parameters its own way; the names used by the source are bound to them
                # (so that renaming a closure parameter in /repo does not matter)
                hp = re.match(r"\|(.*?)\|", hdr, re.S)
                hnames = [x.split(":")[0].strip() for x in hp.group(1).split(",")] if hp else []
                onames = [re.sub(r"^mut\s+", "", x.split(":")[0].strip()) for x in orig_params.split(",")] if orig_params else []
                if len(hnames) == len(onames):
                    for on, hn in zip(onames, hnames):
                        if on != hn and re.fullmatch(r"[A-Za-z][A-Za-z0-9_]*|_[A-Za-z0-9_]+", on):
                            let_stmt += " let %s = %s;" % (on, hn)
            if body[j].kind == "punct" and body[j].text == "{":
                ins.append((off(body[a]), "replace", (off(body[j]) + 1, hdr + " {" + let_stmt)))
            else:
                depth = 0
                e = j
                while e < len(body):
                    tt = body[e]
                    if tt.kind == "punct":
                        if tt.text in ("(", "[", "{"): depth += 1
                        elif tt.text in (")", "]", "}"):
                            if depth == 0: break
                            depth -= 1
                        elif tt.text in (",", ";") and depth == 0:
                            break
                    e += 1
                ins.append((off(body[a]), "replace", (off(body[b]) + len(body[b].text), hdr + " {" + let_stmt)))
                ins.append((off(body[e]), "replace", (off(body[e]), " }")))
            rules_used.add("R5")
    # exit-structure guard: a hint placed at the end of the function / after or at the end of a loop presumes the exits the
    # function had when the hint was written.  If a change adds or removes a `return` or `break`, such a hint may no longer
    # cover every exit, and the failing postcondition at the new exit would be a false alarm: the function is then a lost
    # anchor (UNDECIDED; the bounded stand-in takes over), not a violation.  contracts/exits.json records the counts of the
    # unchanged tree (tools/gen_exits.py) for the functions that have such hints.
    if any(w[0].split(" ||| ")[0].split()[0] in ("fn_end",) or re.match(r"loop\s+\d+\s+(after|end)", w[0].split(" ||| ")[0]) for w in fs.ats):
        nret = sum(1 for t_ in body if t_.kind == "ident" and t_.text == "return")
        nbrk = sum(1 for t_ in body if t_.kind == "ident" and t_.text == "break")
        key_ = "%s::%s" % (fs.file, fs.name)
        if os.environ.get("VERIF_GEN_EXITS"):
            _EXITS_SEEN[key_] = [nret, nbrk]
        else:
            exp = _exits().get(key_)
            if exp is not None and exp != [nret, nbrk]:
                raise LostAnchor("fn %s: exit structure changed (%d return / %d break, recorded %d / %d): the hints placed at its end presume the recorded exits" % (fs.name, nret, nbrk, exp[0], exp[1]))
    ncl = fs.opts.get("closures")
    if ncl is not None and len(find_closures(body)) != 0 and int(ncl) != len(find_closures(body)):
        raise LostAnchor("fn %s: expected %s closures, found %d" % (fs.name, ncl, len(find_closures(body))))
    # apply insertions: walk through btext by char offset, emitting lines
    ins.sort(key=lambda x: x[0])
    # Build list of segments
    cur = 0
    line_no = body_first_line
    pending = ""
    def flush_code(code):
        nonlocal line_no
        if code == "":
            return
        out.add_repo(code, fs.file, line_no)
        line_no += code.count("\n")
    for (pos, mode, payload) in ins:
        code = btext[cur:pos]
        if mode == "replace":
            endpos, hdr = payload
            flush_code(pending + code + hdr)
            pending = ""
            cur = endpos
            continue
        # emit code up to pos, then splice lines on their own lines
        flush_code(pending + code)
        pending = ""
        for (l, origin) in payload:
            out.add(l, origin)
        cur = pos
    flush_code(pending + btext[cur:])

def impl_header_for(fs, impl):
    if fs.impl_header:
        return fs.impl_header
    if impl is None:
        return None
    h = impl.header
    tr, head = impl_key(h)
    if tr is not None:
        # R4: trait impl -> inherent impl: drop `Trait for`
        h2 = re.sub(r"^(impl\s*(?:<[^{]*?>)?\s*)([A-Za-z_][A-Za-z0-9_:<>', ]*?)\s+for\s+", r"\1", h)
        return h2
    return h

def tidy_header(h):
    h = re.sub(r"\s*::\s*", "::", h)
    h = re.sub(r"\s*<\s*", "<", h)
    h = re.sub(r"\s*>", ">", h)
    h = re.sub(r"\s*,\s*", ", ", h)
    h = re.sub(r"\s*:\s*(?!:)", ": ", h)
    h = h.replace(": :", "::")
    h = re.sub(r"'\s+", "'", h)
    h = re.sub(r"&\s+", "&", h)
    return h

def emit_struct(out, relpath, kind, name, rules_used):
    src, toks, it, _ = find_item(relpath, kind, name)
    text = it.text(src)
    t = toks_text(strip_noise(retok(text)))
    t = pub_vis(t)
    # make every field pub (R7)
    lines = []
    for l in t.split("\n"):
        m = re.match(r"^(\s+)([a-z_][A-Za-z0-9_]*\s*:\s*.*)$", l)
        if m and kind == "struct" and not m.group(2).startswith("pub"):
            l = m.group(1) + "pub " + m.group(2)
        lines.append(l)
    t = "\n".join(lines)
    t = re.sub(r"^(pub\s+)?(struct|enum)\b", r"pub \2", t)
    rules_used.add("R7")
    out.add_repo(t, relpath, it.line(src))

def assemble(unit_path, probe=False):
    """probe=True: vacuity probe unit - every function of the unit keeps its signature and `requires`, gets `ensures false`
    and the body `{ probe_any() }`; Verus must FAIL each of them (a contradictory precondition would verify)"""
    u = parse_unit(unit_path)
    out = Out()
    rules_used = set()
    out.add("#![allow(unused_imports, unused_variables, unused_mut, dead_code, unused_parens, unused_braces, unreachable_code, unused_assignments, non_snake_case, unreachable_patterns)]", ("glue",))
    out.add("use vstd::prelude::*;", ("glue",))
    out.add("verus! {", ("glue",))
    fns = []
    for e in u.entries:
        if e[0] == "speclib":
            f = e[1]
            u.speclib.append(f)
            p = os.path.join(VERIF, "speclib", f)
            txt = open(p).read().rstrip("\n")
            assume = probe or not (u.verify_speclib or (len(e) > 2 and e[2]))
            for k, l in enumerate(txt.split("\n")):
                if assume and re.match(r"\s*pub proof fn ", l):
                    # lemma statement assumed in this unit; its proof is checked in the unit `speclib`
                    l = "#[verifier::external_body] " + l
                out.lines.append(l)
                out.map.append(("speclib", f, k + 1))
        elif e[0] in ("struct", "enum"):
            kind, relpath, name, mode, body, line = e
            if mode == "replace":
                out.add(body, ("replaced", relpath, name))
                rules_used.add("R1")
            else:
                emit_struct(out, relpath, kind, name, rules_used)
        elif e[0] == "raw":
            out.add(e[2], ("raw", u.name, e[1], e[3]))
        else:
            fs = e[1]
            src, ftoks, it, impl = find_item(fs.file, "fn", fs.name, fs.impl_sel)
            hdr = impl_header_for(fs, impl)
            if fs.impl_header: rules_used.add("R16")
            if impl is not None and impl_key(impl.header)[0] is not None and not fs.impl_header:
                rules_used.add("R4")
            if hdr:
                hdr = tidy_header(hdr)
                out.add(hdr + " {", ("glue",))
            if probe and not (fs.opts.get("contract_only") or fs.opts.get("trusted")):
                fs.opts["probe"] = True
            emit_fn(out, u, fs, rules_used)
            if hdr:
                out.add("}", ("glue",))
            fns.append(fs)
    out.add("} // verus!", ("glue",))
    out.add("fn main() {}", ("glue",))
    return u, out, rules_used, fns

if __name__ == "__main__":
    u, out, rules, fns = assemble(sys.argv[1])
    dst = sys.argv[2]
    open(dst, "w").write("\n".join(out.lines) + "\n")
    print("unit", u.name, "lines", len(out.lines), "rules", sorted(rules))
