"""Run Verus on an assembled unit and map every diagnostic back to its origin
(contract clause / proof hint / speclib line / line of /repo)."""
import json, os, re, subprocess, sys, time, hashlib
sys.path.insert(0, os.path.dirname(__file__))
import extractor
from extractor import LostAnchor

VERIF = extractor.VERIF
BUILD = os.environ.get("VERIF_BUILD") or os.path.join(VERIF, "build")   # VERIF_BUILD: separate scratch dirs for parallel tooling runs

class Failure:
    def __init__(self, message, spans, rendered):
        self.message = message
        self.spans = spans          # list of dict(line, label, primary, origin)
        self.rendered = rendered
        self.tags = []
        self.clause_ids = []
        self.repo_sites = []
        self.kind = "obligation"    # obligation | frontend | rlimit | speclib
        self.hint_tags = []
        self.lemma_tags = []
        self.line_tags = []

    def describe(self):
        return "%s [%s] tags=%s %s" % (self.message, ",".join(self.clause_ids) or "-", ",".join(self.tags), ",".join(self.repo_sites))

FRONTEND_PAT = re.compile(r"(not supported|unsupported|cannot find|mismatched types|expected .* found|unresolved|no method named|"
                          r"cannot borrow|does not live long enough|borrowed|use of moved|is not satisfied|syntax|"
                          r"must have a decreases|expected one of|unexpected|cannot be used|not allowed|The verifier does not yet support|"
                          r"cannot call|in exec mode|in spec mode|in proof mode|E0\d\d\d)", re.I)

OBLIGATION_MSGS = (
    "postcondition not satisfied",
    "precondition not satisfied",
    "invariant not satisfied",
    "assertion failed",
    "possible arithmetic underflow/overflow",
    "possible division by zero",
    "decreases not satisfied",
    "could not prove termination",
    "loop invariant not satisfied",
    "unreachable",
    "possible bit shift",
    "recommendation not met",
    "failed this",
    "index out of bounds",
    "call to unreached",
    "constructed value may fail to meet its declared type invariant",
    "unable to prove post-condition of closure",
    "unable to prove",
)

def classify(msg):
    m = msg.lower()
    if "resource limit" in m or "rlimit" in m or "timed out" in m or "incomplete" in m:
        return "rlimit"
    for o in OBLIGATION_MSGS:
        if o in m:
            return "obligation"
    return "frontend"

def run_unit(spec_name, seed=None, rlimit=None, extra_args=(), keep_name=None, threads=None):
    """returns dict(status, verified, errors, failures[list of Failure], wall_s, unit_path, fns, rules, smt_ms, hash)"""
    os.makedirs(BUILD, exist_ok=True)
    spec_path = os.path.join(VERIF, "contracts", spec_name + ".spec")
    res = {"unit": spec_name, "status": "ok", "failures": [], "verified": 0, "errors": 0, "wall_s": 0.0,
           "fns": [], "fns_assumed": [], "fns_trusted": [], "rules": [], "smt_ms": 0, "notes": []}
    t0 = time.time()
    try:
        u, out, rules, fns = extractor.assemble(spec_path)
    except LostAnchor as e:
        res["status"] = "lost_anchor"
        res["notes"].append("lost anchor: %s" % e)
        res["wall_s"] = time.time() - t0
        return res
    name = keep_name or spec_name
    unit_path = os.path.join(BUILD, name + ".rs")
    text = "\n".join(out.lines) + "\n"
    open(unit_path, "w").write(text)
    res["unit_path"] = unit_path
    res["hash"] = hashlib.sha256(text.encode()).hexdigest()[:16]
    res["fns"] = [(f.file, f.name) for f in fns if not f.opts.get("contract_only") and not f.opts.get("trusted")]
    res["fns_assumed"] = [(f.file, f.name) for f in fns if f.opts.get("contract_only")]
    res["fns_trusted"] = [(f.file, f.name) for f in fns if f.opts.get("trusted")]
    res["rules"] = sorted(rules)
    res["linemap"] = out.map
    res["clauses"] = sorted({o[6] for o in out.map if o[0] == "clause"})
    res["trusted"] = scan_trusted(out)
    # evaluation tooling only (env VERIF_EVAL_CACHE=<dir>, never set by a registered command): identical unit text +
    # identical options give the identical Verus result, so it is computed once per batch
    cache_file = None
    if os.environ.get("VERIF_EVAL_CACHE"):
        import pickle
        os.makedirs(os.environ["VERIF_EVAL_CACHE"], exist_ok=True)
        cache_file = os.path.join(os.environ["VERIF_EVAL_CACHE"], "unit-%s-%s-%s-%s.pkl" % (spec_name, res["hash"], rlimit, seed))
        if os.path.exists(cache_file):
            r0 = pickle.load(open(cache_file, "rb"))
            r0["notes"] = list(r0.get("notes", [])) + ["(result taken from the evaluation cache)"]
            return r0
    cmd = ["verus", unit_path, "--output-json", "--time", "--triggers-mode", "silent", "--multiple-errors", "12"]
    if rlimit: cmd += ["--rlimit", str(rlimit)]
    if seed is not None: cmd += ["--smt-option", "smt.random_seed=%d" % (seed % 1000)]
    if threads: cmd += ["--num-threads", str(threads)]
    cmd += list(extra_args)
    cmd += ["--", "--error-format=json"]
    res["cmd"] = " ".join(cmd)
    p = subprocess.run(cmd, cwd=BUILD, stdout=subprocess.PIPE, stderr=subprocess.PIPE, text=True)
    res["wall_s"] = time.time() - t0
    open(os.path.join(BUILD, name + ".stdout"), "w").write(p.stdout)
    open(os.path.join(BUILD, name + ".stderr"), "w").write(p.stderr)
    # stdout: one JSON document (possibly preceded by noise)
    doc = None
    try:
        k = p.stdout.index("{")
        doc = json.loads(p.stdout[k:])
    except Exception:
        pass
    if doc is None:
        res["status"] = "tool_error"
        res["notes"].append("no JSON result from verus (exit %d)" % p.returncode)
    else:
        vr = doc.get("verification-results", {})
        res["verified"] = vr.get("verified", 0)
        res["errors"] = vr.get("errors", 0)
        res["smt_ms"] = doc.get("times-ms", {}).get("smt", {}).get("smt-run", 0)
        res["total_ms"] = doc.get("times-ms", {}).get("total", 0)
        if vr.get("encountered-vir-error"):
            res["status"] = "frontend_error"
    # stderr: JSON diagnostics
    for line in p.stderr.split("\n"):
        line = line.strip()
        if not line.startswith("{"): continue
        try:
            d = json.loads(line)
        except Exception:
            continue
        if d.get("level") != "error": continue
        msg = d.get("message", "")
        if msg.startswith("aborting due to"): continue
        spans = []
        for sp in d.get("spans", []):
            ln = sp.get("line_start")
            origin = out.map[ln - 1] if ln and 0 < ln <= len(out.map) else ("unknown",)
            spans.append({"line": ln, "label": sp.get("label"), "primary": sp.get("is_primary"), "origin": origin,
                          "text": (sp.get("text") or [{}])[0].get("text", "").strip()})
        f = Failure(msg, spans, d.get("rendered", ""))
        f.kind = classify(msg)
        raw_tags = []
        for sp in spans:
            o = sp["origin"]
            # most specific attribution: a trailing `// [TAG,TAG]` on the very line that failed
            if sp["line"] and o[0] in ("hint", "speclib", "raw"):
                mm = re.search(r"//\s*\[([A-Za-z0-9_,\. ]+)\]\s*$", out.lines[sp["line"] - 1])
                if mm and sp.get("primary"):
                    f.line_tags += [x.strip() for x in mm.group(1).split(",") if x.strip()]
            if o[0] == "clause":
                f.tags += [t for t in o[4] if t]
                f.clause_ids.append(o[6])
            elif o[0] == "hint":
                f.clause_ids.append("hint@%s:%s" % (o[2], o[3]))
                f.hint_tags += list(o[5])
            elif o[0] == "repo":
                f.repo_sites.append("src/%s:%d" % (o[1], o[2]))
            elif o[0] == "raw":
                f.clause_ids.append("client@%s:%s" % (o[1], o[2].split(" [")[0]))
                # default attribution of a glue / client block: `=== raw <name> [C05,C08]`
                mm = re.search(r"\[([A-Za-z0-9_,\. ]+)\]\s*$", o[2])
                if mm: raw_tags += [x.strip() for x in mm.group(1).split(",") if x.strip()]
            elif o[0] == "speclib":
                f.clause_ids.append("speclib/%s:%d" % (o[1], o[2]))
                # a requires-clause of a speclib lemma may carry its own attribution: `// [TAG,TAG]`
                mm = re.search(r"//\s*\[([A-Za-z0-9_,\. ]+)\]\s*$", out.lines[sp["line"] - 1])
                if mm:
                    f.lemma_tags += [x.strip() for x in mm.group(1).split(",") if x.strip()]
        # attribution: clause tags; a failing lemma precondition inside a hint is attributed by the tag
        # comment on that requires-line, else by the tags of the hint
        if f.line_tags:
            f.tags = f.line_tags
        elif not f.tags:
            f.tags = f.lemma_tags or f.hint_tags or raw_tags
        # the postcondition of a closure is part of the contract of the function that contains it (rule R5):
        # attribute its failure to that function's clauses
        if not f.tags and "post-condition of closure" in msg.lower():
            for sp in spans:
                if not sp["line"]: continue
                fn = None
                for k in range(sp["line"] - 1, -1, -1):
                    o = out.map[k]
                    if o[0] == "clause" and not str(o[3]).startswith("loop"):
                        fn = o[2]; break
                if fn:
                    tg = []
                    for o in out.map:
                        if o[0] == "clause" and o[2] == fn: tg += [t for t in o[4] if t]
                    f.tags = sorted(set(tg))
                    f.clause_ids.append("closure@%s" % fn)
                    break
        # an untagged proof hint supports the contract of the function it is spliced into: attribute its
        # failure to that function's clauses (never drop it silently)
        if not f.tags and f.kind == "obligation":
            for sp in spans:
                o = sp["origin"]
                if o[0] != "hint": continue
                tg = []
                for o2 in out.map:
                    if o2[0] == "clause" and o2[2] == o[2] and not str(o2[3]).endswith("decreases"):
                        tg += [t for t in o2[4] if t]
                f.tags = sorted(set(tg))
                break
        res["failures"].append(f)
    if res["status"] == "ok":
        kinds = {f.kind for f in res["failures"]}
        if "frontend" in kinds or (doc and doc.get("verification-results", {}).get("encountered-error") and not res["failures"]):
            res["status"] = "frontend_error"
        elif "rlimit" in kinds:
            res["status"] = "rlimit"
        elif res["failures"] or res["errors"]:
            res["status"] = "failed"
    if cache_file:
        import pickle
        pickle.dump(res, open(cache_file, "wb"))
    return res

def run_probe(spec_name, rlimit=5):
    """vacuity probe (DESIGN 3.6): every function of the unit with its real `requires`, `ensures false` and an arbitrary
    body; Verus must FAIL every one of them.  returns dict(status ok|vacuous|undecided, probes, refuted, vacuous[list], wall_s)"""
    os.makedirs(BUILD, exist_ok=True)
    spec_path = os.path.join(VERIF, "contracts", spec_name + ".spec")
    res = {"unit": spec_name, "status": "ok", "probes": 0, "refuted": 0, "vacuous": [], "wall_s": 0.0, "note": ""}
    t0 = time.time()
    try:
        u, out, rules, fns = extractor.assemble(spec_path, probe=True)
    except LostAnchor as e:
        res["status"] = "undecided"; res["note"] = "lost anchor: %s" % e
        return res
    probes = [f.name for f in fns if f.opts.get("probe")]
    res["probes"] = len(probes)
    unit_path = os.path.join(BUILD, spec_name + "__probe.rs")
    ptext = "\n".join(out.lines) + "\n"
    open(unit_path, "w").write(ptext)
    pcache = None
    if os.environ.get("VERIF_EVAL_CACHE"):
        os.makedirs(os.environ["VERIF_EVAL_CACHE"], exist_ok=True)
        pcache = os.path.join(os.environ["VERIF_EVAL_CACHE"], "probe-%s-%s.json" % (spec_name, hashlib.sha256(ptext.encode()).hexdigest()[:16]))
        if os.path.exists(pcache):
            return json.load(open(pcache))
    cmd = ["verus", unit_path, "--output-json", "--triggers-mode", "silent", "--multiple-errors", "0", "--rlimit", str(rlimit), "--", "--error-format=json"]
    res["cmd"] = " ".join(cmd)
    p = subprocess.run(cmd, cwd=BUILD, stdout=subprocess.PIPE, stderr=subprocess.PIPE, text=True)
    res["wall_s"] = time.time() - t0
    failed = set()
    other = []
    for line in p.stderr.split("\n"):
        line = line.strip()
        if not line.startswith("{"): continue
        try: d = json.loads(line)
        except Exception: continue
        if d.get("level") != "error" or d.get("message", "").startswith("aborting due to"): continue
        hit = False
        if classify(d.get("message", "")) == "frontend":
            other.append(d.get("message", "")[:200]); continue      # the probe unit does not compile: not a refutation
        for sp in d.get("spans", []):
            ln = sp.get("line_start")
            o = out.map[ln - 1] if ln and 0 < ln <= len(out.map) else ("unknown",)
            if o[0] == "clause" and any(str(t).startswith("PROBE.") for t in o[4]):
                failed.add(o[2]); hit = True
        if not hit:
            # rlimit and similar are reported on the function header (a line of /repo): the probe clause follows it
            for sp in d.get("spans", []):
                ln = sp.get("line_start")
                o = out.map[ln - 1] if ln and 0 < ln <= len(out.map) else ("unknown",)
                if o[0] != "repo" or not sp.get("is_primary"): continue
                for k in range(ln - 1, min(ln + 40, len(out.map))):
                    o2 = out.map[k]
                    if o2[0] == "glue" and "probe_any" in out.lines[k]: break
                    if o2[0] == "clause" and any(str(t).startswith("PROBE.") for t in o2[4]):
                        failed.add(o2[2]); hit = True; break
                if hit: break
        if not hit: other.append(d.get("message", "")[:200])
    res["refuted"] = len([f for f in probes if f in failed])
    res["vacuous"] = sorted(set(probes) - failed)
    if any(classify(o_) == "frontend" for o_ in other):
        # the probe unit itself does not compile (the changed code left the Verus subset): nothing can be said about vacuity
        res["status"] = "undecided"; res["note"] = "probe unit did not compile: " + "; ".join(other[:3]); res["vacuous"] = []
    elif res["vacuous"]:
        res["status"] = "vacuous"
    if pcache:
        json.dump(res, open(pcache, "w"))
    return res

TRUST_PAT = re.compile(r"\b(assume\s*\(|admit\s*\(|external_body|assume_specification|external_fn_specification|#\[verifier::external|verifier::exec_allows_no_decreases_clause|verifier::loop_isolation|unreached)")

def scan_trusted(out):
    found = []
    nlem = [0]
    ncon = []
    for k, l in enumerate(out.lines):
        if l.strip().startswith("//"): continue
        m = TRUST_PAT.search(l)
        if m:
            o = out.map[k]
            if m.group(1) == "unreached": continue
            if "pub proof fn" in l and o[0] == "speclib": 
                nlem[0] += 1
                continue
            if o[0] == "contract_only":
                ncon.append(o[1]); continue
            if o[0] == "trusted":
                found.append("TRUSTED contract (body not verified, assumed): %s" % o[1]); continue
            found.append("%s @ %s" % (l.strip()[:110], ":".join(str(x) for x in o[:3])))
    if nlem[0]:
        found.append("%d speclib lemma statements assumed in this unit (each proved in its home unit: `speclib`, which every check runs, or `setops_lib` for speclib/setops.rs, which every set-operation check runs)" % nlem[0])
    if ncon:
        found.append("callee contracts assumed in this unit and proved in their home unit: " + ", ".join(sorted(set(ncon))))
    return found

def hint_tags(unit_name):
    pass

if __name__ == "__main__" and sys.argv[1] == "--probe":
    r = run_probe(sys.argv[2])
    print(json.dumps({k: v for k, v in r.items() if k != "cmd"}, indent=1))
    sys.exit(0)
if __name__ == "__main__":
    r = run_unit(sys.argv[1], rlimit=(60 if sys.argv[1] == "speclib" else 30))
    print(r["status"], "verified", r["verified"], "errors", r["errors"], "wall %.1fs" % r["wall_s"], "smt %sms" % r["smt_ms"])
    for n in r["notes"]: print("  note:", n)
    for f in r["failures"]:
        print("--", f.kind, f.describe())
        if "-v" in sys.argv or f.kind != "obligation":
            print(f.rendered)
