"""Minimal Rust lexer + item locator used by the extractor (python3 stdlib only).

It does not parse Rust; it tokenises correctly enough (comments, nested block comments,
strings, raw strings, byte strings, char literals vs. lifetimes) to match braces and find
items (`impl` blocks, `fn`, `struct`, `enum`) by name.
"""
import re

class Tok:
    __slots__ = ("kind", "text", "start", "end")
    def __init__(self, kind, text, start, end):
        self.kind, self.text, self.start, self.end = kind, text, start, end
    def __repr__(self):
        return "Tok(%s,%r)" % (self.kind, self.text)

_ident = re.compile(r"[A-Za-z_][A-Za-z0-9_]*")
_num = re.compile(r"[0-9][0-9A-Za-z_]*(\.[0-9][0-9A-Za-z_]*)?")
_ws = re.compile(r"\s+")
_raw = re.compile(r"b?r(#*)\"")

def lex(src):
    toks = []
    i, n = 0, len(src)
    while i < n:
        c = src[i]
        m = _ws.match(src, i)
        if m:
            toks.append(Tok("ws", m.group(0), i, m.end())); i = m.end(); continue
        if src.startswith("//", i):
            j = src.find("\n", i)
            if j < 0: j = n
            text = src[i:j]
            kind = "doc" if (text.startswith("///") and not text.startswith("////")) or text.startswith("//!") else "comment"
            toks.append(Tok(kind, text, i, j)); i = j; continue
        if src.startswith("/*", i):
            depth, j = 1, i + 2
            while j < n and depth:
                if src.startswith("/*", j): depth += 1; j += 2
                elif src.startswith("*/", j): depth -= 1; j += 2
                else: j += 1
            toks.append(Tok("comment", src[i:j], i, j)); i = j; continue
        m = _raw.match(src, i)
        if m:
            close = "\"" + m.group(1)
            j = src.find(close, m.end())
            j = n if j < 0 else j + len(close)
            toks.append(Tok("str", src[i:j], i, j)); i = j; continue
        if c == '"' or (c == 'b' and i + 1 < n and src[i + 1] == '"'):
            j = i + (2 if c == 'b' else 1)
            while j < n and src[j] != '"':
                j += 2 if src[j] == '\\' else 1
            j += 1
            toks.append(Tok("str", src[i:j], i, j)); i = j; continue
        if c == "'":
            # char literal or lifetime
            if i + 2 < n and src[i + 1] == '\\':
                j = src.find("'", i + 2)
                # '\'' case
                if src[i + 2] == "'" : j = src.find("'", i + 3)
                toks.append(Tok("char", src[i:j + 1], i, j + 1)); i = j + 1; continue
            if i + 2 < n and src[i + 2] == "'":
                toks.append(Tok("char", src[i:i + 3], i, i + 3)); i += 3; continue
            m = _ident.match(src, i + 1)
            if m:
                toks.append(Tok("lifetime", src[i:m.end()], i, m.end())); i = m.end(); continue
            toks.append(Tok("punct", c, i, i + 1)); i += 1; continue
        m = _ident.match(src, i)
        if m:
            toks.append(Tok("ident", m.group(0), i, m.end())); i = m.end(); continue
        m = _num.match(src, i)
        if m:
            t = m.group(0)
            toks.append(Tok("num", t, i, i + len(t))); i += len(t); continue
        # multi-char punctuation that matters to us
        for p in ("->", "=>", "::", "..=", "..", "&&", "||", "==", "!=", "<=", ">=", "+=", "-=", "<<", ">>"):
            if src.startswith(p, i):
                toks.append(Tok("punct", p, i, i + len(p))); i += len(p); break
        else:
            toks.append(Tok("punct", c, i, i + 1)); i += 1
    return toks

OPEN = {"(": ")", "[": "]", "{": "}"}
CLOSE = {")", "]", "}"}

def sig(toks):
    """indices of significant tokens (no ws/comments/doc)"""
    return [k for k, t in enumerate(toks) if t.kind not in ("ws", "comment", "doc")]

def match_close(toks, k):
    """toks[k] is an opening bracket token; return index of its matching close."""
    want = OPEN[toks[k].text]
    depth = 0
    for j in range(k, len(toks)):
        t = toks[j]
        if t.kind != "punct": continue
        if t.text in OPEN: depth += 1
        elif t.text in CLOSE:
            depth -= 1
            if depth == 0:
                if t.text != want:
                    raise ValueError("bracket mismatch at %d" % t.start)
                return j
    raise ValueError("unclosed bracket at %d" % toks[k].start)

class Item:
    """kind in {'fn','struct','enum','impl','trait','type','mod','use','const','macro'}"""
    def __init__(self, kind, name, toks, a, b, hdr_end=None, body_open=None):
        self.kind, self.name = kind, name
        self.toks = toks
        self.a, self.b = a, b            # token index range [a, b] inclusive (without attrs/docs)
        self.hdr_end = hdr_end
        self.body_open = body_open       # token index of '{' (fn / impl / struct-with-braces)
        self.children = []
        self.header = None               # normalised header text for impl
    def text(self, src):
        return src[self.toks[self.a].start:self.toks[self.b].end]
    def line(self, src):
        return src.count("\n", 0, self.toks[self.a].start) + 1

_ITEM_KW = {"fn", "struct", "enum", "impl", "trait", "type", "mod", "use", "const", "static", "macro_rules"}
_QUAL = {"pub", "unsafe", "async", "const", "extern", "default"}

def items(toks, lo, hi):
    """Locate items among toks[lo:hi] at nesting depth 0 relative to that range."""
    out = []
    k = lo
    while k < hi:
        t = toks[k]
        if t.kind in ("ws", "comment", "doc"):
            k += 1; continue
        if t.kind == "punct" and t.text == "#":
            # attribute  #[...] or #![...]
            j = k + 1
            while toks[j].kind == "ws" or (toks[j].kind == "punct" and toks[j].text == "!"): j += 1
            if toks[j].kind == "punct" and toks[j].text == "[":
                k = match_close(toks, j) + 1; continue
            k += 1; continue
        # item start
        a = k
        j = k
        # qualifiers: pub, pub(crate), unsafe, const fn ...
        while j < hi:
            tj = toks[j]
            if tj.kind == "ws": j += 1; continue
            if tj.kind == "ident" and tj.text in _QUAL:
                # `const` may be the item keyword itself (const X: T = ..), check next sig token
                if tj.text == "const":
                    nn = j + 1
                    while toks[nn].kind == "ws": nn += 1
                    if not (toks[nn].kind == "ident" and toks[nn].text in ("fn", "unsafe", "extern", "async")):
                        break
                j += 1
                # pub(crate)
                nn = j
                while nn < hi and toks[nn].kind == "ws": nn += 1
                if tj.text == "pub" and nn < hi and toks[nn].kind == "punct" and toks[nn].text == "(":
                    j = match_close(toks, nn) + 1
                continue
            if tj.kind == "str":   # extern "C"
                j += 1; continue
            break
        kw = toks[j]
        if kw.kind != "ident" or kw.text not in _ITEM_KW:
            # something else (macro invocation like `foo!{}`), skip to ; or matching brace
            j2 = k
            while j2 < hi:
                tt = toks[j2]
                if tt.kind == "punct" and tt.text in OPEN:
                    j2 = match_close(toks, j2)
                    if tt.text == "{": break
                elif tt.kind == "punct" and tt.text == ";":
                    break
                j2 += 1
            k = j2 + 1
            continue
        kind = kw.text
        # find name
        nn = j + 1
        while toks[nn].kind == "ws": nn += 1
        name = toks[nn].text if toks[nn].kind == "ident" else None
        # scan to body '{' or ';' at depth 0 (parens/brackets skipped)
        j2 = nn
        body_open = None
        end = None
        while j2 < hi:
            tt = toks[j2]
            if tt.kind == "punct":
                if tt.text in ("(", "["):
                    j2 = match_close(toks, j2)
                elif tt.text == "{":
                    body_open = j2
                    end = match_close(toks, j2)
                    break
                elif tt.text == ";":
                    end = j2
                    break
            j2 += 1
        if end is None:
            raise ValueError("item without end near offset %d" % toks[a].start)
        it = Item(kind, name, toks, a, end, body_open=body_open)
        if kind == "impl":
            it.header = " ".join(x.text for x in toks[j:body_open] if x.kind not in ("ws", "comment", "doc"))
            it.children = items(toks, body_open + 1, end)
        elif kind in ("trait", "mod") and body_open is not None:
            it.children = items(toks, body_open + 1, end)
        # struct Foo { .. } has no trailing ';' ; tuple struct `struct X(..);` handled by ';'
        out.append(it)
        k = end + 1
    return out

def impl_key(header):
    """('Trait' or None, 'TypeHead') from a normalised impl header."""
    h = header
    # strip leading `impl` and generic params
    assert h.startswith("impl")
    rest = h[4:].strip()
    if rest.startswith("<"):
        depth = 0
        for i, ch in enumerate(rest):
            if ch == "<": depth += 1
            elif ch == ">":
                # ignore `->`
                if i > 0 and rest[i - 1] == "-": continue
                depth -= 1
                if depth == 0:
                    rest = rest[i + 1:].strip(); break
    # cut where clause
    w = re.search(r"\bwhere\b", rest)
    if w: rest = rest[:w.start()].strip()
    trait = None
    m = re.search(r"\bfor\b", rest)
    if m:
        trait = rest[:m.start()].strip()
        rest = rest[m.end():].strip()
        trait = re.match(r"[A-Za-z_][A-Za-z0-9_:]*", trait).group(0).split("::")[-1].strip()
    ty = rest.lstrip("& ").strip()
    ty = re.sub(r"^'[a-z_]+\s*", "", ty)
    ty = re.sub(r"^mut\s+", "", ty)
    head = re.match(r"\(|[A-Za-z_][A-Za-z0-9_]*", ty).group(0)
    return trait, head
