"""Run a group of Kani harnesses of /verif/kani against the real crate in /repo."""
import json, os, re, subprocess, time

VERIF = os.path.dirname(os.path.dirname(os.path.abspath(__file__)))
KDIR = os.path.join(VERIF, "kani")

def load_groups():
    return json.load(open(os.path.join(VERIF, "kani", "groups.json")))

def run_group(group, tier, seed):
    """returns dict(group,status,checks,checks_ok,violations,cmd,samples,harnesses,wall_s,note)"""
    g = load_groups()[group]
    harnesses = list(g["quick"]) + (list(g.get("thorough", [])) if tier == "thorough" else [])
    res = {"group": group, "status": "ok", "checks": 0, "checks_ok": 0, "violations": [], "samples": [],
           "harnesses": 0, "harnesses_ok": 0, "wall_s": 0, "note": "", "fns": g.get("fns", []),
           "trusted": g.get("trusted", []), "bounded": g.get("bounded")}
    t0 = time.time()
    env = dict(os.environ)
    env["CARGO_NET_OFFLINE"] = "true"
    env.pop("RUSTFLAGS", None)
    # the lock file of the repository pins the dependency versions (offline)
    try:
        lock = open("/repo/Cargo.lock").read()
        open(os.path.join(KDIR, "Cargo.lock"), "w").write(lock)
    except Exception:
        pass
    cmd = ["cargo", "kani", "-j", "16", "--output-format", "terse"]
    for a in g.get("args", []):
        cmd.append(a)
    for h in harnesses:
        cmd += ["--harness", h]
    res["cmd"] = "cd %s && CARGO_NET_OFFLINE=true %s" % (KDIR, " ".join(cmd))
    try:
        p = subprocess.run(cmd, cwd=KDIR, env=env, stdout=subprocess.PIPE, stderr=subprocess.STDOUT, text=True,
                           timeout=g.get("timeout", 3000))
        out = p.stdout
    except subprocess.TimeoutExpired as e:
        res["status"] = "undecided"; res["note"] = "kani timeout"; res["wall_s"] = time.time() - t0
        return res
    os.makedirs(os.path.join(VERIF, "build"), exist_ok=True)
    open(os.path.join(VERIF, "build", "kani_%s.log" % group), "w").write(out)
    res["wall_s"] = round(time.time() - t0, 1)
    # parse per-harness blocks
    blocks = re.split(r"(?m)^Checking harness ", out)
    # with -j the output is grouped per thread: "Thread N:" ... we only need totals + failed harness names
    nsucc = len(re.findall(r"VERIFICATION:- SUCCESSFUL", out))
    nfail = len(re.findall(r"VERIFICATION:- FAILED", out))
    for m in re.finditer(r"\*\* (\d+) of (\d+) failed", out):
        res["checks"] += int(m.group(2))
        res["checks_ok"] += int(m.group(2)) - int(m.group(1))
    res["harnesses"] = nsucc + nfail
    res["harnesses_ok"] = nsucc
    uns_cover = re.findall(r"\*\* (\d+) of (\d+) cover properties satisfied", out)
    for a, b in uns_cover:
        if int(a) < int(b) and not g.get("allow_unsat_cover"):
            res["status"] = "undecided"; res["note"] = "unsatisfied cover property (vacuity guard)"
    m = re.search(r"Complete - (\d+) successfully verified harnesses, (\d+) failures, (\d+) total", out)
    if not m:
        if "error" in out.lower():
            res["status"] = "undecided"
            res["note"] = "kani did not complete: " + " | ".join(l for l in out.split("\n") if "error" in l.lower())[:400]
            return res
    else:
        total = int(m.group(3))
        if total < len(harnesses):
            res["status"] = "undecided"; res["note"] = "only %d of %d harnesses found" % (total, len(harnesses))
    # failed harness names
    for m2 in re.finditer(r"(?m)^Verification failed for - (\S+)", out):
        h = m2.group(1)
        # failed checks description
        desc = re.findall(r"Failed Checks: (.*)", out)
        res["violations"].append({"harness": h, "failed_checks": desc[:6], "concrete_input": None})
    if nfail and not res["violations"]:
        res["violations"].append({"harness": "(unknown)", "failed_checks": re.findall(r"Failed Checks: (.*)", out)[:6], "concrete_input": None})
    res["samples"] = ["kani harness " + h for h in harnesses[:6]]
    return res
