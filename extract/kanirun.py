"""Run a group of Kani harnesses of /verif/kani against the real crate in /repo."""
import json, os, re, subprocess, time

VERIF = os.path.dirname(os.path.dirname(os.path.abspath(__file__)))
KDIR = os.path.join(VERIF, "kani")

def load_groups():
    return json.load(open(os.path.join(VERIF, "kani", "groups.json")))

def run_group(group, tier, seed):
    """returns dict(group,status,checks,checks_ok,violations,cmd,samples,harnesses,wall_s,note)"""
    g = load_groups()[group]
    harnesses = list(g["quick"]) + (list(g.get("thorough", [])) if tier == "thorough" else [])
    res = {"group": group, "status": "ok", "checks": 0, "checks_ok": 0, "violations": [], "samples": [],
           "harnesses": 0, "harnesses_ok": 0, "wall_s": 0, "note": "", "fns": g.get("fns", []),
           "trusted": g.get("trusted", []), "bounded": g.get("bounded")}
    t0 = time.time()
    # evaluation tooling only (env VERIF_EVAL_CACHE, never set by a registered command): same sources + same group = same result
    kcache = None
    if os.environ.get("VERIF_EVAL_CACHE"):
        import hashlib
        hsh = hashlib.sha256()
        rp = os.path.realpath(os.environ.get("VERIF_REPO", "/repo"))
        for root, _, files in sorted(os.walk(os.path.join(rp, "src"))):
            for f in sorted(files):
                hsh.update(f.encode()); hsh.update(open(os.path.join(root, f), "rb").read())
        for f in ("Cargo.toml",):
            hsh.update(open(os.path.join(rp, f), "rb").read())
        os.makedirs(os.environ["VERIF_EVAL_CACHE"], exist_ok=True)
        kcache = os.path.join(os.environ["VERIF_EVAL_CACHE"], "kani-%s-%s-%s.json" % (group, tier, hsh.hexdigest()[:16]))
        if os.path.exists(kcache):
            return json.load(open(kcache))
    # runs against a scratch copy of the repository (evaluation of seeded changes, env VERIF_REPO) use a copy of the
    # harness crate whose path dependency points at that copy; registered checks always analyse /repo itself
    global KDIR
    repo = os.path.realpath(os.environ.get("VERIF_REPO", "/repo"))
    if repo != "/repo":
        import shutil
        kd = os.path.join(VERIF, "build", "kani_scratch")
        os.makedirs(kd, exist_ok=True)
        shutil.copytree(os.path.join(VERIF, "kani", "src"), os.path.join(kd, "src"), dirs_exist_ok=True)
        ct = open(os.path.join(VERIF, "kani", "Cargo.toml")).read().replace('path = "/repo"', 'path = "%s"' % repo)
        open(os.path.join(kd, "Cargo.toml"), "w").write(ct)
        KDIR = kd
    else:
        KDIR = os.path.join(VERIF, "kani")
    env = dict(os.environ)
    env["CARGO_NET_OFFLINE"] = "true"
    env.pop("RUSTFLAGS", None)
    # the lock file of the repository pins the dependency versions (offline)
    try:
        lock = open(os.path.join(repo, "Cargo.lock")).read()
        open(os.path.join(KDIR, "Cargo.lock"), "w").write(lock)
    except Exception:
        pass
    cmd = ["cargo", "kani", "-j", "16", "--output-format", "terse"]
    for a in g.get("args", []):
        cmd.append(a)
    for h in harnesses:
        cmd += ["--harness", h]
    res["cmd"] = "cd %s && CARGO_NET_OFFLINE=true %s" % (KDIR, " ".join(cmd))
    # two checks started at the same time share the harness crate's target directory: serialise the Kani runs
    # (concurrent `cargo kani` builds overwrite each other's goto binaries and end as a tool crash = UNDECIDED)
    lockf = None
    try:
        import fcntl
        os.makedirs(os.path.join(VERIF, "build"), exist_ok=True)
        lockf = open(os.path.join(VERIF, "build", "kani_%s.lock" % os.path.basename(KDIR)), "w")
        fcntl.flock(lockf, fcntl.LOCK_EX)
    except Exception:
        lockf = None
    try:
        p = subprocess.run(cmd, cwd=KDIR, env=env, stdout=subprocess.PIPE, stderr=subprocess.STDOUT, text=True,
                           timeout=g.get("timeout", 3000))
        out = p.stdout
        if lockf: lockf.close()
    except subprocess.TimeoutExpired as e:
        res["status"] = "undecided"; res["note"] = "kani timeout"; res["wall_s"] = time.time() - t0
        return res
    os.makedirs(os.path.join(VERIF, "build"), exist_ok=True)
    open(os.path.join(VERIF, "build", "kani_%s.log" % group), "w").write(out)
    res["wall_s"] = round(time.time() - t0, 1)
    # parse per-harness blocks
    blocks = re.split(r"(?m)^Checking harness ", out)
    # with -j the output is grouped per thread: "Thread N:" ... we only need totals + failed harness names
    nsucc = len(re.findall(r"VERIFICATION:- SUCCESSFUL", out))
    nfail = len(re.findall(r"VERIFICATION:- FAILED", out))
    for m in re.finditer(r"\*\* (\d+) of (\d+) failed", out):
        res["checks"] += int(m.group(2))
        res["checks_ok"] += int(m.group(2)) - int(m.group(1))
    res["harnesses"] = nsucc + nfail
    res["harnesses_ok"] = nsucc
    uns_cover = re.findall(r"\*\* (\d+) of (\d+) cover properties satisfied", out)
    for a, b in uns_cover:
        if int(a) < int(b) and not g.get("allow_unsat_cover"):
            res["status"] = "undecided"; res["note"] = "unsatisfied cover property (vacuity guard)"
    m = re.search(r"Complete - (\d+) successfully verified harnesses, (\d+) failures, (\d+) total", out)
    if not m:
        if "error" in out.lower():
            res["status"] = "undecided"
            res["note"] = "kani did not complete: " + " | ".join(l for l in out.split("\n") if "error" in l.lower())[:400]
            return res
    else:
        total = int(m.group(3))
        if total < len(harnesses):
            res["status"] = "undecided"; res["note"] = "only %d of %d harnesses found" % (total, len(harnesses))
    # failed harness names
    for m2 in re.finditer(r"(?m)^Verification failed for - (\S+)", out):
        h = m2.group(1)
        # failed checks description
        desc = re.findall(r"Failed Checks: (.*)", out)
        res["violations"].append({"harness": h, "failed_checks": desc[:6], "concrete_input": None})
    # counterexamples: Kani concrete playback for (at most 3) failed harnesses, replayed natively on the real crate
    for v in res["violations"][:3]:
        try:
            v["concrete_input"] = concrete_playback(v["harness"], env)
        except Exception as e:
            v["playback_error"] = str(e)[:300]
    if nfail and not res["violations"]:
        res["violations"].append({"harness": "(unknown)", "failed_checks": re.findall(r"Failed Checks: (.*)", out)[:6], "concrete_input": None})
    res["samples"] = ["kani harness " + h for h in harnesses[:6]]
    if kcache:
        try: json.dump(res, open(kcache, "w"))
        except Exception: pass
    return res


def native_replay(harness, values, env=None):
    """run the harness body of kani/src/algebra.rs natively (linked against the repository under analysis) on concrete values"""
    env = dict(env or os.environ)
    env["CARGO_NET_OFFLINE"] = "true"
    env.pop("RUSTFLAGS", None)
    env["CARGO_TARGET_DIR"] = os.path.join(VERIF, "build", "kani_native_target" + ("_scratch" if KDIR.endswith("kani_scratch") else ""))
    b = subprocess.run(["cargo", "build", "--offline", "-q", "--bin", "algebra-replay"], cwd=KDIR, env=env, capture_output=True, text=True)
    exe = os.path.join(env["CARGO_TARGET_DIR"], "debug", "algebra-replay")
    args = [",".join(str(x) for x in v) for v in values]
    cmd = "cd %s && CARGO_TARGET_DIR=%s cargo run --offline -q --bin algebra-replay -- %s %s" % (KDIR, env["CARGO_TARGET_DIR"], harness, " ".join(args))
    if b.returncode != 0 or not os.path.exists(exe):
        return {"cmd": cmd, "output": "native replay binary does not build: " + b.stderr[-300:], "reproduced": False}
    p = subprocess.run([exe, harness] + args, capture_output=True, text=True, timeout=120)
    line = next((l for l in p.stdout.split("\n") if l.startswith(("FAILS", "HOLDS", "OUTSIDE", "UNKNOWN"))), "")
    return {"cmd": cmd, "output": (line or p.stdout[-300:] or p.stderr[-300:]), "reproduced": line.startswith("FAILS"), "stderr": p.stderr[-400:]}

def concrete_playback(harness, env):
    """ask Kani for the concrete values of a failing check of `harness` and replay them natively; None if there is none"""
    cmd = ["cargo", "kani", "--harness", harness, "-Z", "concrete-playback", "--concrete-playback=print", "--output-format", "terse"]
    p = subprocess.run(cmd, cwd=KDIR, env=env, stdout=subprocess.PIPE, stderr=subprocess.STDOUT, text=True, timeout=1200)
    out = p.stdout
    best = None
    for blk in re.split(r"(?m)^/// Test generated for harness", out)[1:]:
        kind = re.search(r"Check for `(\w+)`: \"(.*?)\"", blk)
        if not kind or kind.group(1) == "cover": continue
        vals = [[int(x) for x in re.findall(r"\d+", m)] for m in re.findall(r"vec!\[([0-9, ]*)\],", blk.split("concrete_vals")[1] if "concrete_vals" in blk else "")]
        cand = {"check": kind.group(2), "values": vals}
        nat = native_replay(harness, vals, env)
        cand["native"] = nat
        if nat["reproduced"]:
            return cand
        best = best or cand
    return best if (best and best["native"]["reproduced"]) else None
