//! C19, BOUNDED stand-in for the serialisation round trip (feature `serde` of the real crate, serde_json as format):
//! every map over the 7 prefixes of length <= 2 with values in {0,1}, built by 3 histories (+ host-bit variant), is
//! serialised and deserialised; the result must be `==` to the original (both directions), have the same len() and
//! the same entry sequence.  Same for sets.  `verif-replay-serde <scenario>` prints HOLDS/FAILS like verif-replay.
use prefix_trie::*;
use serde::{Deserialize, Deserializer, Serialize, Serializer};

/// an 8-bit prefix type of the test (the crate's `Prefix` trait is public); serialised as the string "repr/len" so
/// that it can be a JSON object key; equality and hash are those of the representation (host bits included)
#[derive(Clone, Copy, Debug, PartialEq, Eq, Hash)]
struct K(u8, u8);

impl Prefix for K {
    type R = u8;
    fn repr(&self) -> u8 { self.0 }
    fn prefix_len(&self) -> u8 { self.1 }
    fn from_repr_len(repr: u8, len: u8) -> Self { K(repr, len) }
}

impl Serialize for K {
    fn serialize<S: Serializer>(&self, s: S) -> Result<S::Ok, S::Error> {
        s.serialize_str(&format!("{}/{}", self.0, self.1))
    }
}

impl<'de> Deserialize<'de> for K {
    fn deserialize<D: Deserializer<'de>>(d: D) -> Result<Self, D::Error> {
        let s = String::deserialize(d)?;
        let (a, b) = s.split_once('/').ok_or_else(|| serde::de::Error::custom("no slash"))?;
        Ok(K(a.parse().map_err(serde::de::Error::custom)?, b.parse().map_err(serde::de::Error::custom)?))
    }
}

const KEYS: [(u8, u8); 7] = [(0x00, 0), (0x00, 1), (0x80, 1), (0x00, 2), (0x40, 2), (0x80, 2), (0xc0, 2)];

fn digit(c: u32, k: usize) -> u32 { (c / 3u32.pow(k as u32)) % 3 }

fn build(c: u32, h: u32, host: u8) -> PrefixMap<K, u8> {
    let mut m: PrefixMap<K, u8> = PrefixMap::new();
    let rep = |key: (u8, u8)| K(key.0 | (host & (0xffu8 >> key.1)), key.1);
    match h {
        0 => for (k, key) in KEYS.iter().enumerate() { if digit(c, k) > 0 { m.insert(rep(*key), (digit(c, k) - 1) as u8); } },
        1 => for (k, key) in KEYS.iter().enumerate().rev() { if digit(c, k) > 0 { m.insert(rep(*key), (digit(c, k) - 1) as u8); } },
        _ => {
            for (k, key) in KEYS.iter().enumerate() { m.insert(rep(*key), if digit(c, k) > 0 { (digit(c, k) - 1) as u8 } else { 7 }); }
            for (k, key) in KEYS.iter().enumerate() { if digit(c, k) == 0 { m.remove_keep_tree(&K(key.0, key.1)); } }
        }
    }
    m
}

fn c19_serde_bounded() -> Result<(), String> {
    let n = 3u32.pow(7);
    let mut evals: u64 = 0;
    let mut nonempty: u64 = 0;
    for c in 0..n {
        for h in 0..3u32 {
            for host in [0u8, 0x15u8] {
                if host != 0 && h == 1 { continue; }
                let a = build(c, h, host);
                let txt = serde_json::to_string(&a).map_err(|e| format!("code {c} history {h}: serialize failed: {e}"))?;
                let b: PrefixMap<K, u8> = serde_json::from_str(&txt).map_err(|e| format!("code {c} history {h}: deserialize of {txt} failed: {e}"))?;
                evals += 1;
                if a.len() > 0 { nonempty += 1; }
                let ea: Vec<(K, u8)> = a.iter().map(|(p, v)| (*p, *v)).collect();
                let eb: Vec<(K, u8)> = b.iter().map(|(p, v)| (*p, *v)).collect();
                if !(a == b) || !(b == a) || a.len() != b.len() || ea != eb {
                    return Err(format!("code {c} history {h} host {host:#x}: {ea:?} --serialize--> {txt} --deserialize--> {eb:?} (a == b: {}, len {} vs {})", a == b, a.len(), b.len()));
                }
                if c == 1000 && h == 2 && host == 0 { println!("SAMPLE map code {c} history {h}: {ea:?} -> {txt} -> equal"); }
                let sa: PrefixSet<K> = a.keys().copied().collect();
                let ts = serde_json::to_string(&sa).map_err(|e| format!("set of code {c}: serialize failed: {e}"))?;
                let sb: PrefixSet<K> = serde_json::from_str(&ts).map_err(|e| format!("set of code {c}: deserialize of {ts} failed: {e}"))?;
                evals += 1;
                if !(sa == sb) || sa.len() != sb.len() || !sa.iter().eq(sb.iter()) {
                    return Err(format!("set of code {c} history {h} host {host:#x}: round trip through {ts} is not equal"));
                }
            }
        }
    }
    println!("STATS c19_serde_bounded evaluations={evals} pairs_expected_equal={evals} pairs_expected_unequal=0 nonempty_maps={nonempty} states={n} histories=3 exhaustive=true");
    Ok(())
}

fn main() {
    let scen = std::env::args().nth(1).unwrap_or_default();
    let table: Vec<(&str, fn() -> Result<(), String>)> = vec![("c19_serde_bounded", c19_serde_bounded)];
    let mut bad = 0;
    for (name, f) in &table {
        if scen == "all" || scen == *name {
            match f() {
                Ok(()) => println!("HOLDS {name}"),
                Err(e) => { println!("FAILS {name}: {e}"); bad += 1; }
            }
        }
    }
    std::process::exit(if bad > 0 { 1 } else { 0 });
}
