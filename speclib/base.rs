// ---------------------------------------------------------------------------------------------
// speclib/base.rs -- key algebra contract (DESIGN.md 4.1).  Hand-written Verus; contains no code
// of /repo.  The trait below is the *contract* of `prefix_trie::Prefix` as the trie code uses it;
// each shipped implementation is checked against these clauses by the Kani harnesses (layer K).
// ---------------------------------------------------------------------------------------------

pub open spec fn pre(a: Seq<bool>, b: Seq<bool>) -> bool {
    a.len() <= b.len() && forall|k: int| 0 <= k < a.len() ==> a[k] == b[k]
}

pub open spec fn spre(a: Seq<bool>, b: Seq<bool>) -> bool {
    a.len() < b.len() && pre(a, b)
}

/// lexicographic order on bit strings, a prefix sorts before everything it covers
#[verifier::opaque]
pub open spec fn lex_lt(a: Seq<bool>, b: Seq<bool>) -> bool {
    spre(a, b) || exists|k: int| #![trigger a[k]]
        0 <= k < a.len() && k < b.len() && !a[k] && b[k]
            && (forall|j: int| 0 <= j < k ==> a[j] == b[j])
}

pub trait Prefix: Sized {
    /// network part of the prefix as a bit string (most significant bit first); its length is
    /// the prefix length.  Host bits are *not* part of it.
    spec fn bits(&self) -> Seq<bool>;

    /// `mask()` viewed as a natural number (used only for ordering in the set operations)
    spec fn mask_val(&self) -> nat;

    proof fn lemma_len(&self)
        ensures self.bits().len() <= 255;

    /// mask order == lexicographic order of the bit strings for keys of equal length; for keys
    /// of different length that do not cover each other the order is decided by the first
    /// differing bit.  (Checked for the shipped types by Kani.)
    proof fn lemma_mask_order(&self, other: &Self)
        ensures
            self.bits().len() == other.bits().len() ==>
                ((self.mask_val() < other.mask_val()) == lex_lt(self.bits(), other.bits())),
            self.bits().len() == other.bits().len() ==>
                ((self.mask_val() == other.mask_val()) == (self.bits() =~= other.bits())),
            (!pre(self.bits(), other.bits()) && !pre(other.bits(), self.bits())) ==>
                ((self.mask_val() < other.mask_val()) == lex_lt(self.bits(), other.bits()));

    fn prefix_len(&self) -> (r: u8)
        ensures r as int == self.bits().len();

    fn contains(&self, other: &Self) -> (r: bool)
        ensures r == pre(self.bits(), other.bits());

    fn is_bit_set(&self, bit: u8) -> (r: bool)
        ensures r == ((bit as int) < self.bits().len() && self.bits()[bit as int]);

    fn eq(&self, other: &Self) -> (r: bool)
        ensures r == (self.bits() =~= other.bits());

    fn longest_common_prefix(&self, other: &Self) -> (r: Self)
        ensures
            pre(r.bits(), self.bits()),
            pre(r.bits(), other.bits()),
            r.bits().len() == self.bits().len() || r.bits().len() == other.bits().len()
                || self.bits()[r.bits().len() as int] != other.bits()[r.bits().len() as int];

    fn zero() -> (r: Self)
        ensures r.bits().len() == 0;

    /// comparison of two masks (`p_a.mask().cmp(&p_b.mask())`, `p_a.mask() < p_b.mask()`): the
    /// extractor rewrites both forms into this method (rule R12) because `Self::R: PrimInt` has no
    /// Verus model; its contract is the order on `mask_val`.
    /// `p_a.mask() < p_b.mask()` (rule R12)
    fn mask_lt(&self, other: &Self) -> (r: bool)
        ensures r == (self.mask_val() < other.mask_val());

    /// `p_a.mask() == p_b.mask()` (rule R12)
    fn mask_eq(&self, other: &Self) -> (r: bool)
        ensures r == (self.mask_val() == other.mask_val());

    fn mask_cmp(&self, other: &Self) -> (r: core::cmp::Ordering)
        ensures
            (r is Less) == (self.mask_val() < other.mask_val()),
            (r is Equal) == (self.mask_val() == other.mask_val()),
            (r is Greater) == (self.mask_val() > other.mask_val());

    /// `repr()` (the address *including host bits*) viewed as a number.  The code of /repo never compares
    /// representations; these methods exist so that a change which starts doing so (`a.repr() == b.repr()`,
    /// `a.repr().cmp(&b.repr())`, rewritten by rule R12) is decided instead of leaving the Verus subset:
    /// nothing relates repr_val to bits() except that equal representation and equal length mean the same key.
    spec fn repr_val(&self) -> nat;

    proof fn lemma_repr(&self, other: &Self)
        ensures self.repr_val() == other.repr_val() && self.bits().len() == other.bits().len() ==> self.bits() =~= other.bits();

    fn repr_eq(&self, other: &Self) -> (r: bool)
        ensures r == (self.repr_val() == other.repr_val());

    fn repr_lt(&self, other: &Self) -> (r: bool)
        ensures r == (self.repr_val() < other.repr_val());

    fn repr_cmp(&self, other: &Self) -> (r: core::cmp::Ordering)
        ensures
            (r is Less) == (self.repr_val() < other.repr_val()),
            (r is Equal) == (self.repr_val() == other.repr_val()),
            (r is Greater) == (self.repr_val() > other.repr_val());
}

pub proof fn lemma_pre_refl(a: Seq<bool>)
    ensures pre(a, a)
{
}

pub proof fn lemma_pre_trans(a: Seq<bool>, b: Seq<bool>, c: Seq<bool>)
    requires pre(a, b), pre(b, c)
    ensures pre(a, c)
{
}

pub proof fn lemma_pre_antisym(a: Seq<bool>, b: Seq<bool>)
    requires pre(a, b), pre(b, a)
    ensures a =~= b
{
}

/// two prefixes of the same string are comparable
pub proof fn lemma_pre_comparable(a: Seq<bool>, b: Seq<bool>, c: Seq<bool>)
    requires pre(a, c), pre(b, c)
    ensures pre(a, b) || pre(b, a)
{
    if a.len() <= b.len() {
        assert(pre(a, b));
    } else {
        assert(pre(b, a));
    }
}
