// ---------------------------------------------------------------------------------------------
// speclib/insert.rs -- map-level lemmas for the four placement cases of insert / VacantEntry::_insert
// ---------------------------------------------------------------------------------------------

/// what every single-key mutator establishes [tags are attached to the separate ensures clauses]
pub open spec fn ins_content<P: Prefix, T>(m0: PrefixMap<P, T>, m1: PrefixMap<P, T>, p: P, v: T) -> bool {
    m1.content() =~= m0.content().insert(p.bits(), (p, v))
}

/// [C16] the arena grows only when no free slot is left
pub open spec fn grow_ok<P: Prefix, T>(m0: PrefixMap<P, T>, m1: PrefixMap<P, T>) -> bool {
    m1.tab().len() >= m0.tab().len()
        && (m1.tab().len() > m0.tab().len() ==> m1.free@.len() == 0 && m1.tab().len() - m0.tab().len() + m0.free@.len() <= 2)
        && (m1.tab().len() == m0.tab().len() ==> m1.free@.len() <= m0.free@.len())
}

pub proof fn lemma_insert_reached<P: Prefix, T>(m0: PrefixMap<P, T>, m1: PrefixMap<P, T>, idx: int, p: P, v: T)
    requires
        m0.wf(), m0.live().contains(idx), kb(m0.tab(), idx) =~= p.bits(),
        m1.free@ == m0.free@, // [FREE]
        m1.tab().len() == m0.tab().len(), // [FREE,SHAPE]
        frame_nodes(m0.tab(), m1.tab(), idx, idx, idx), // [SHAPE,C01,C18,COUNT]
        m1.tab()[idx].prefix == p, // [C18,C01]
        m1.tab()[idx].value == Some(v), // [C01,COUNT]
        m1.tab()[idx].left == m0.tab()[idx].left, // [SHAPE]
        m1.tab()[idx].right == m0.tab()[idx].right, // [SHAPE]
        m1.count as int == m0.count as int + (if m0.tab()[idx].value.is_none() { 1int } else { 0int }), // [COUNT]
    ensures
        m1.wf_shape(), m1.wf_free(), m1.wf_count(),
        ins_content(m0, m1, p, v),
        m0.content().dom().contains(p.bits()) == m0.tab()[idx].value.is_some(),
        m0.tab()[idx].value.is_some() ==> m0.content()[p.bits()].1 == m0.tab()[idx].value.unwrap(),
        m0.canon() ==> m1.canon(), // [C15]
{
    let t0 = m0.tab(); let t1 = m1.tab(); let l0 = m0.live();
    assert(m1.live() =~= l0);
    let par = lemma_twf_par(t0, l0);
    lemma_glob(t0, l0);
    assert forall|j: int| 0 <= j < t0.len() implies #[trigger] same_shape_at(t0, t1, j) by {
        if j != idx { assert(t1[j] == t0[j]); }
    }
    lemma_relink_same(t0, l0, par, t1);
    assert(tloc(t1, l0, par));
    lemma_twf_intro(t1, m1.live());
    // count
    assert forall|i: int| 0 <= i && i != idx implies ind(t0, l0, i) == ind(t1, l0, i) by {
        if l0.contains(i) { assert(t1[i] == t0[i]); }
    }
    lemma_nval_ext(t0, l0, t0.len() as int, t1, l0, t1.len() as int, idx);
    // content
    lemma_get_step(t0, l0, idx, p.bits());
    assert(stored(t1, l0, idx) && kb(t1, idx) =~= p.bits());
    assert forall|i: int| #[trigger] stored(t0, l0, i) && !(kb(t0, i) =~= p.bits()) implies
        stored(t1, l0, i) && kb(t1, i) == kb(t0, i) && t1[i].prefix == t0[i].prefix && t1[i].value == t0[i].value by {
        assert(t1[i] == t0[i]);
    }
    assert forall|i: int| #[trigger] stored(t1, l0, i) && !(kb(t1, i) =~= p.bits()) implies stored(t0, l0, i) && kb(t0, i) == kb(t1, i) by {
        assert(i != idx);
        assert(t1[i] == t0[i]);
    }
    assert(upd_rel(t0, l0, t1, l0, p.bits(), Some((p, v))));
    lemma_content_upd(t0, l0, t1, l0, p.bits(), Some((p, v)));
    if m0.canon() {
        assert forall|n: int| #![trigger m1.live().contains(n)] m1.live().contains(n) && n != 0 && t1[n].value.is_none() implies t1[n].left.is_some() && t1[n].right.is_some() by {
            assert(l0.contains(n));
            if n != idx { assert(t1[n] == t0[n]); }
        }
    }
}

/// facts shared by the three "new node" cases: nothing with key q is stored, counting, content
pub proof fn lemma_insert_new_common<P: Prefix, T>(m0: PrefixMap<P, T>, m1: PrefixMap<P, T>, idx: int, new: int, br: int, p: P, v: T)
    requires
        m0.wf(), m1.wf_shape(), m0.live().contains(idx),
        spre(kb(m0.tab(), idx), p.bits()), path_ends(m0.tab(), idx, p.bits()),
        !m0.live().contains(new), !m0.live().contains(br),
        m1.live() =~= m0.live().insert(br).insert(new),
        frame_nodes(m0.tab(), m1.tab(), idx, new, br),
        m1.tab()[idx].prefix == m0.tab()[idx].prefix, m1.tab()[idx].value == m0.tab()[idx].value,
        m1.tab()[new].prefix == p, m1.tab()[new].value == Some(v),
        br != new ==> m1.tab()[br].value.is_none(),
        m1.count as int == m0.count as int + 1,
    ensures
        m1.wf_count(),
        ins_content(m0, m1, p, v),
        !m0.content().dom().contains(p.bits()),
{
    let t0 = m0.tab(); let t1 = m1.tab(); let l0 = m0.live(); let l1 = m1.live();
    lemma_glob(t0, l0);
    lemma_glob(t1, l1);
    lemma_get_step(t0, l0, idx, p.bits());
    // count
    assert forall|i: int| 0 <= i && i != new implies ind(t0, l0, i) == ind(t1, l1, i) by {
        if i == br {
        } else if i == idx {
        } else if l0.contains(i) { assert(t1[i] == t0[i]); }
    }
    lemma_nval_ext(t0, l0, t0.len() as int, t1, l1, t1.len() as int, new);
    assert(ind(t0, l0, new) == 0 && ind(t1, l1, new) == 1);
    // content
    let q = p.bits();
    assert(stored(t1, l1, new) && kb(t1, new) =~= q);
    assert forall|i: int| #[trigger] stored(t0, l0, i) && !(kb(t0, i) =~= q) implies
        stored(t1, l1, i) && kb(t1, i) == kb(t0, i) && t1[i].prefix == t0[i].prefix && t1[i].value == t0[i].value by {
        if i != idx { assert(t1[i] == t0[i]); }
    }
    assert forall|i: int| #[trigger] stored(t1, l1, i) && !(kb(t1, i) =~= q) implies stored(t0, l0, i) && kb(t0, i) == kb(t1, i) by {
        assert(i != new && i != br);
        assert(l0.contains(i));
        if i != idx { assert(t1[i] == t0[i]); }
    }
    assert(upd_rel(t0, l0, t1, l1, q, Some((p, v))));
    lemma_content_upd(t0, l0, t1, l1, q, Some((p, v)));
}

pub proof fn lemma_insert_leaf<P: Prefix, T>(m0: PrefixMap<P, T>, m1: PrefixMap<P, T>, idx: int, new: int, s: bool, p: P, v: T)
    requires
        m0.wf(), m0.live().contains(idx), // [SHAPE,C01]
        !(kb(m0.tab(), idx) =~= p.bits()), pre(kb(m0.tab(), idx), p.bits()), // [SHAPE,C01]
        s == next_bit(kb(m0.tab(), idx), p.bits()), chd(m0.tab(), idx, s).is_none(), // [SHAPE,C01]
        0 <= new < m1.tab().len(), !m0.live().contains(new), m1.live() =~= m0.live().insert(new), m1.wf_free(), // [FREE,SHAPE]
        frame_nodes(m0.tab(), m1.tab(), idx, new, new), // [SHAPE,C01,C18,COUNT]
        m1.tab()[idx].prefix == m0.tab()[idx].prefix, m1.tab()[idx].value == m0.tab()[idx].value, // [C18,C01,SHAPE,COUNT]
        is_child(m1.tab(), idx, s, new), chd(m1.tab(), idx, !s) == chd(m0.tab(), idx, !s), // [SHAPE]
        m1.tab()[new].prefix == p, m1.tab()[new].value == Some(v), // [C18,C01,SHAPE,COUNT]
        m1.tab()[new].left.is_none(), m1.tab()[new].right.is_none(), // [SHAPE]
        m1.count as int == m0.count as int + 1, // [COUNT]
    ensures
        m1.wf_shape(), m1.wf_count(), ins_content(m0, m1, p, v), !m0.content().dom().contains(p.bits()),
        m0.canon() ==> m1.canon(), // [C15]
{
    let t0 = m0.tab(); let t1 = m1.tab(); let l0 = m0.live();
    let par = lemma_twf_par(t0, l0);
    p.lemma_len();
    lemma_frame_nodes_shape(t0, t1, idx, new, new);
    lemma_relink_leaf(t0, l0, par, t1, idx, new, s);
    lemma_twf_intro(t1, l0.insert(new));
    assert(l0.insert(new).insert(new) =~= l0.insert(new));
    lemma_insert_new_common(m0, m1, idx, new, new, p, v);
    if m0.canon() {
        assert forall|n: int| #![trigger m1.live().contains(n)] m1.live().contains(n) && n != 0 && t1[n].value.is_none() implies t1[n].left.is_some() && t1[n].right.is_some() by {
            if n != new { assert(l0.contains(n)); if n != idx { assert(t1[n] == t0[n]); } }
        }
    }
}

pub proof fn lemma_insert_child<P: Prefix, T>(m0: PrefixMap<P, T>, m1: PrefixMap<P, T>, idx: int, new: int, s: bool, cs: bool, c: int, p: P, v: T)
    requires
        m0.wf(), m0.live().contains(idx), // [SHAPE,C01]
        !(kb(m0.tab(), idx) =~= p.bits()), pre(kb(m0.tab(), idx), p.bits()), // [SHAPE,C01]
        s == next_bit(kb(m0.tab(), idx), p.bits()), is_child(m0.tab(), idx, s, c), // [SHAPE,C01]
        !pre(kb(m0.tab(), c), p.bits()), pre(p.bits(), kb(m0.tab(), c)), cs == next_bit(p.bits(), kb(m0.tab(), c)), // [SHAPE,C01]
        0 <= new < m1.tab().len(), !m0.live().contains(new), m1.live() =~= m0.live().insert(new), m1.wf_free(), // [FREE,SHAPE]
        frame_nodes(m0.tab(), m1.tab(), idx, new, new), // [SHAPE,C01,C18,COUNT]
        m1.tab()[idx].prefix == m0.tab()[idx].prefix, m1.tab()[idx].value == m0.tab()[idx].value, // [C18,C01,SHAPE,COUNT]
        is_child(m1.tab(), idx, s, new), chd(m1.tab(), idx, !s) == chd(m0.tab(), idx, !s), // [SHAPE]
        m1.tab()[new].prefix == p, m1.tab()[new].value == Some(v), // [C18,C01,SHAPE,COUNT]
        is_child(m1.tab(), new, cs, c), chd(m1.tab(), new, !cs).is_none(), // [SHAPE]
        m1.count as int == m0.count as int + 1, // [COUNT]
    ensures
        m1.wf_shape(), m1.wf_count(), ins_content(m0, m1, p, v), !m0.content().dom().contains(p.bits()),
        m0.canon() ==> m1.canon(), // [C15]
{
    let t0 = m0.tab(); let t1 = m1.tab(); let l0 = m0.live();
    let par = lemma_twf_par(t0, l0);
    p.lemma_len();
    lemma_glob(t0, l0);
    assert(child_ok(t0, l0, idx, s));
    lemma_frame_nodes_shape(t0, t1, idx, new, new);
    lemma_relink_child(t0, l0, par, t1, idx, new, s, c, cs);
    lemma_twf_intro(t1, l0.insert(new));
    assert(l0.insert(new).insert(new) =~= l0.insert(new));
    lemma_insert_new_common(m0, m1, idx, new, new, p, v);
    if m0.canon() {
        assert forall|n: int| #![trigger m1.live().contains(n)] m1.live().contains(n) && n != 0 && t1[n].value.is_none() implies t1[n].left.is_some() && t1[n].right.is_some() by {
            if n != new { assert(l0.contains(n)); if n != idx { assert(t1[n] == t0[n]); } }
        }
    }
}

pub proof fn lemma_insert_branch<P: Prefix, T>(m0: PrefixMap<P, T>, m1: PrefixMap<P, T>, idx: int, br: int, new: int, s: bool, ps: bool, c: int, bp: P, p: P, v: T)
    requires
        m0.wf(), m0.live().contains(idx), // [SHAPE,C01]
        !(kb(m0.tab(), idx) =~= p.bits()), pre(kb(m0.tab(), idx), p.bits()), // [SHAPE,C01]
        s == next_bit(kb(m0.tab(), idx), p.bits()), is_child(m0.tab(), idx, s, c), // [SHAPE,C01]
        !pre(kb(m0.tab(), c), p.bits()), !pre(p.bits(), kb(m0.tab(), c)), // [SHAPE,C01]
        pre(bp.bits(), p.bits()), pre(bp.bits(), kb(m0.tab(), c)), // [SHAPE,C01]
        bp.bits().len() < p.bits().len(), bp.bits().len() < kb(m0.tab(), c).len(), // [SHAPE,C01]
        p.bits()[bp.bits().len() as int] != kb(m0.tab(), c)[bp.bits().len() as int], // [SHAPE,C01]
        ps == next_bit(bp.bits(), p.bits()), // [SHAPE,C01]
        0 <= new < m1.tab().len(), 0 <= br < m1.tab().len(), br != new, // [FREE,SHAPE]
        !m0.live().contains(new), !m0.live().contains(br), // [FREE,SHAPE]
        m1.live() =~= m0.live().insert(br).insert(new), m1.wf_free(), // [FREE,SHAPE]
        frame_nodes(m0.tab(), m1.tab(), idx, new, br), // [SHAPE,C01,C18,COUNT]
        m1.tab()[idx].prefix == m0.tab()[idx].prefix, m1.tab()[idx].value == m0.tab()[idx].value, // [C18,C01,SHAPE,COUNT]
        is_child(m1.tab(), idx, s, br), chd(m1.tab(), idx, !s) == chd(m0.tab(), idx, !s), // [SHAPE]
        m1.tab()[br].prefix == bp, m1.tab()[br].value.is_none(), // [SHAPE,COUNT,C01]
        is_child(m1.tab(), br, ps, new), is_child(m1.tab(), br, !ps, c), // [SHAPE]
        m1.tab()[new].prefix == p, m1.tab()[new].value == Some(v), // [C18,C01,SHAPE,COUNT]
        m1.tab()[new].left.is_none(), m1.tab()[new].right.is_none(), // [SHAPE]
        m1.count as int == m0.count as int + 1, // [COUNT]
    ensures
        m1.wf_shape(), m1.wf_count(), ins_content(m0, m1, p, v), !m0.content().dom().contains(p.bits()),
        m0.canon() ==> m1.canon(), // [C15]
{
    let t0 = m0.tab(); let t1 = m1.tab(); let l0 = m0.live();
    let par = lemma_twf_par(t0, l0);
    p.lemma_len();
    lemma_glob(t0, l0);
    assert(child_ok(t0, l0, idx, s));
    let q = p.bits(); let b = bp.bits(); let kc = kb(t0, c); let ki = kb(t0, idx);
    // the branch key lies strictly below idx: q and kc agree on the first |ki|+1 bits
    assert(b.len() > ki.len()) by {
        if b.len() <= ki.len() {
            assert(q[b.len() as int] == ki[b.len() as int] || b.len() == ki.len());
            assert(kc[b.len() as int] == ki[b.len() as int] || b.len() == ki.len());
        }
    }
    assert(spre(ki, b));
    lemma_frame_nodes_shape(t0, t1, idx, new, br);
    lemma_relink_branch(t0, l0, par, t1, idx, br, new, s, c, ps);
    lemma_twf_intro(t1, l0.insert(br).insert(new));
    lemma_insert_new_common(m0, m1, idx, new, br, p, v);
    if m0.canon() {
        assert forall|n: int| #![trigger m1.live().contains(n)] m1.live().contains(n) && n != 0 && t1[n].value.is_none() implies t1[n].left.is_some() && t1[n].right.is_some() by {
            if n != new && n != br { assert(l0.contains(n)); if n != idx { assert(t1[n] == t0[n]); } }
        }
    }
}

/// [C01] `collect()` is the abstract map after inserting the items one after the other (a later duplicate wins)
pub open spec fn fold_ins<P: Prefix, T>(m: IMap<Seq<bool>, (P, T)>, s: Seq<(P, T)>) -> IMap<Seq<bool>, (P, T)>
    decreases s.len()
{
    if s.len() == 0 { m } else { fold_ins(m.insert(s[0].0.bits(), s[0]), s.skip(1)) }
}

pub open spec fn fold_ins_set<P: Prefix>(m: IMap<Seq<bool>, (P, ())>, s: Seq<P>) -> IMap<Seq<bool>, (P, ())>
    decreases s.len()
{
    if s.len() == 0 { m } else { fold_ins_set(m.insert(s[0].bits(), (s[0], ())), s.skip(1)) }
}
