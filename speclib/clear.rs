pub proof fn lemma_clear<P: Prefix, T>(m1: PrefixMap<P, T>)
    requires
        m1.tab().len() == 1, m1.free@.len() == 0, m1.count == 0, // [C16,FREE,COUNT,C10]
        kb(m1.tab(), 0).len() == 0, // [SHAPE]
        m1.tab()[0].value.is_none(), // [C01,COUNT]
        m1.tab()[0].left.is_none(), m1.tab()[0].right.is_none(), // [SHAPE]
    ensures
        m1.wf_shape(), m1.wf_free(), m1.wf_count(),
        m1.content() =~= IMap::<Seq<bool>, (P, T)>::empty(),
{
    let t = m1.tab(); let l = m1.live();
    lemma_free_empty(1);
    assert(m1.free@ =~= Seq::<usize>::empty());
    let par = |c: int| 0int;
    assert(l.contains(0));
    assert forall|i: int| #[trigger] l.contains(i) implies i == 0 by { }
    assert(tloc(t, l, par));
    lemma_twf_intro(t, l);
    reveal_with_fuel(nval, 2);
    assert forall|k: Seq<bool>| !content(t, l).dom().contains(k) by {
        lemma_content_dom(t, l, k);
        if has_key(t, l, k) {
            let i = node_of(t, l, k);
            assert(l.contains(i));
        }
    }
}
