// ---------------------------------------------------------------------------------------------
// speclib/map.rs -- map-level invariant and abstraction (DESIGN.md 4.2).  Hand-written Verus.
// `PrefixMap` is the struct extracted from src/map/mod.rs (fields made pub by rule R7).
// ---------------------------------------------------------------------------------------------

/// indicator: slot i is live and holds a value
pub open spec fn ind<P: Prefix, T>(t: Seq<Node<P, T>>, live: ISet<int>, i: int) -> int {
    if live.contains(i) && t[i].value.is_some() { 1 } else { 0 }
}

/// number of valued live slots below n
pub open spec fn nval<P: Prefix, T>(t: Seq<Node<P, T>>, live: ISet<int>, n: int) -> int
    decreases n
{
    if n <= 0 { 0 } else { nval(t, live, n - 1) + ind(t, live, n - 1) }
}

pub proof fn lemma_nval_bounds<P: Prefix, T>(t: Seq<Node<P, T>>, live: ISet<int>, n: int)
    ensures 0 <= nval(t, live, n) <= (if n < 0 { 0 } else { n })
    decreases n
{
    if n > 0 { lemma_nval_bounds(t, live, n - 1); }
}

/// two states whose indicators agree below n except possibly at k
pub proof fn lemma_nval_diff<P: Prefix, T>(t1: Seq<Node<P, T>>, l1: ISet<int>, t2: Seq<Node<P, T>>, l2: ISet<int>, n: int, k: int)
    requires forall|i: int| 0 <= i < n && i != k ==> ind(t1, l1, i) == ind(t2, l2, i)
    ensures nval(t2, l2, n) - nval(t1, l1, n) == (if 0 <= k < n { ind(t2, l2, k) - ind(t1, l1, k) } else { 0 })
    decreases n
{
    if n > 0 { lemma_nval_diff(t1, l1, t2, l2, n - 1, k); }
}

/// a valued live slot below n makes the count positive
pub proof fn lemma_nval_pos<P: Prefix, T>(t: Seq<Node<P, T>>, live: ISet<int>, n: int, k: int)
    requires 0 <= k < n, ind(t, live, k) == 1
    ensures nval(t, live, n) >= 1
    decreases n
{
    lemma_nval_bounds(t, live, n - 1);
    if k < n - 1 { lemma_nval_pos(t, live, n - 1, k); }
}

/// no valued live slot below n: count is zero
pub proof fn lemma_nval_zero<P: Prefix, T>(t: Seq<Node<P, T>>, live: ISet<int>, n: int)
    requires forall|i: int| 0 <= i < n ==> ind(t, live, i) == 0
    ensures nval(t, live, n) == 0
    decreases n
{
    if n > 0 { lemma_nval_zero(t, live, n - 1); }
}

#[verifier::opaque]
pub open spec fn free_ok(free: Seq<usize>, n: int) -> bool {
    (forall|k: int| 0 <= k < free.len() ==> 0 < #[trigger] free[k] < n)
        && (forall|k: int, l: int| 0 <= k < l < free.len() ==> free[k] != free[l])
}

impl<P: Prefix, T> PrefixMap<P, T> {
    pub open spec fn tab(&self) -> Seq<Node<P, T>> {
        self.table.0@
    }

    /// C16: a slot is live exactly when it is not on the free list
    pub open spec fn live(&self) -> ISet<int> {
        ISet::new(|i: int| 0 <= i < self.table.0@.len() && !self.free@.contains(i as usize))
    }

    /// [C15/C16] the non-free slots form a well-linked trie
    pub open spec fn wf_shape(&self) -> bool {
        twf_live(self.tab(), self.live())
    }

    /// [C16] free list hygiene
    pub open spec fn wf_free(&self) -> bool {
        free_ok(self.free@, self.table.0@.len() as int)
    }

    /// [C04] cached counter
    pub open spec fn wf_count(&self) -> bool {
        self.count as int == nval(self.tab(), self.live(), self.tab().len() as int)
    }

    pub open spec fn wf(&self) -> bool {
        self.wf_shape() && self.wf_free() && self.wf_count()
    }

    /// [C15] canonical shape (holds as long as only insert / Entry API / remove / retain / clear were used)
    pub open spec fn canon(&self) -> bool {
        tcanon(self.tab(), self.live())
    }

    pub open spec fn content(&self) -> IMap<Seq<bool>, (P, T)> {
        content(self.tab(), self.live())
    }
}

/// what an exact-match observer must return for query bits q
pub open spec fn get_spec<P: Prefix, T>(m: IMap<Seq<bool>, (P, T)>, q: Seq<bool>, r: Option<&T>) -> bool {
    r.is_some() == m.dom().contains(q) && (r.is_some() ==> *r.unwrap() == m[q].1)
}

pub open spec fn get_kv_spec<P: Prefix, T>(m: IMap<Seq<bool>, (P, T)>, q: Seq<bool>, r: Option<(&P, &T)>) -> bool {
    r.is_some() == m.dom().contains(q) && (r.is_some() ==> *r.unwrap().0 == m[q].0 && *r.unwrap().1 == m[q].1)
}

/// stored covering entries and longest / shortest match among them
pub open spec fn covers<P: Prefix, T>(m: IMap<Seq<bool>, (P, T)>, k: Seq<bool>, q: Seq<bool>) -> bool {
    m.dom().contains(k) && pre(k, q)
}

/// [C02] r is the longest stored key covering q (None iff there is none)
pub open spec fn lpm_spec<P: Prefix, T>(m: IMap<Seq<bool>, (P, T)>, q: Seq<bool>, r: Option<(&P, &T)>) -> bool {
    match r {
        Some(e) => covers(m, e.0.bits(), q) && *e.0 == m[e.0.bits()].0 && *e.1 == m[e.0.bits()].1
            && (forall|k: Seq<bool>| #[trigger] covers(m, k, q) ==> k.len() <= e.0.bits().len()),
        None => forall|k: Seq<bool>| !#[trigger] covers(m, k, q),
    }
}

/// [C09] r is the shortest stored key covering q (None iff there is none)
pub open spec fn spm_spec<P: Prefix, T>(m: IMap<Seq<bool>, (P, T)>, q: Seq<bool>, r: Option<(&P, &T)>) -> bool {
    match r {
        Some(e) => covers(m, e.0.bits(), q) && *e.0 == m[e.0.bits()].0 && *e.1 == m[e.0.bits()].1
            && (forall|k: Seq<bool>| #[trigger] covers(m, k, q) ==> k.len() >= e.0.bits().len()),
        None => forall|k: Seq<bool>| !#[trigger] covers(m, k, q),
    }
}


/// content-level reading of one descent step of an exact-match lookup
pub proof fn lemma_get_step<P: Prefix, T>(t: Seq<Node<P, T>>, live: ISet<int>, idx: int, q: Seq<bool>)
    requires twf_live(t, live), live.contains(idx), pre(kb(t, idx), q)
    ensures
        step_bounds(t, live, idx),
        kb(t, idx) =~= q ==> (content(t, live).dom().contains(q) == t[idx].value.is_some())
            && (t[idx].value.is_some() ==> content(t, live)[q] == (t[idx].prefix, t[idx].value.unwrap())),
        ({
            let s = next_bit(kb(t, idx), q);
            !(kb(t, idx) =~= q) && (chd(t, idx, s).is_none() || !pre(kb(t, chd(t, idx, s).unwrap() as int), q))
        }) ==> !content(t, live).dom().contains(q),
{
    lemma_step(t, live, idx, q);
    lemma_content_dom(t, live, q);
    if kb(t, idx) =~= q {
        if t[idx].value.is_some() {
            lemma_content_at(t, live, idx);
            assert(kb(t, idx) == q);
        } else if has_key(t, live, q) {
            let i = node_of(t, live, q);
            assert(live.contains(i) && kb(t, i) =~= kb(t, idx));
        }
    } else if has_key(t, live, q) {
        let i = node_of(t, live, q);
        assert(on_path_below(t, live, idx, q, i));
    }
}

// ---- longest / shortest prefix match along a descent (C02, C09) ----

pub open spec fn in_range<P: Prefix, T>(m: IMap<Seq<bool>, (P, T)>, k: Seq<bool>, bound: Seq<bool>, strict: bool) -> bool {
    m.dom().contains(k) && pre(k, bound) && (strict ==> k.len() < bound.len())
}

/// rk is the longest stored key that is a (strict) prefix of `bound`
pub open spec fn lpmk_upto<P: Prefix, T>(m: IMap<Seq<bool>, (P, T)>, bound: Seq<bool>, strict: bool, rk: Option<&P>) -> bool {
    match rk {
        Some(p) => in_range(m, p.bits(), bound, strict) && *p == m[p.bits()].0
            && (forall|k: Seq<bool>| #[trigger] in_range(m, k, bound, strict) ==> k.len() <= p.bits().len()),
        None => forall|k: Seq<bool>| !#[trigger] in_range(m, k, bound, strict),
    }
}

pub open spec fn fst<'a, P, T>(r: Option<(&'a P, &'a T)>) -> Option<&'a P> {
    match r { Some(e) => Some(e.0), None => None }
}

pub open spec fn lpm_upto<P: Prefix, T>(m: IMap<Seq<bool>, (P, T)>, bound: Seq<bool>, strict: bool, r: Option<(&P, &T)>) -> bool {
    lpmk_upto(m, bound, strict, fst(r)) && (r.is_some() ==> *r.unwrap().1 == m[r.unwrap().0.bits()].1)
}

/// [C02] key-only variant
pub open spec fn lpmk_spec<P: Prefix, T>(m: IMap<Seq<bool>, (P, T)>, q: Seq<bool>, rk: Option<&P>) -> bool {
    match rk {
        Some(p) => covers(m, p.bits(), q) && *p == m[p.bits()].0
            && (forall|k: Seq<bool>| #[trigger] covers(m, k, q) ==> k.len() <= p.bits().len()),
        None => forall|k: Seq<bool>| !#[trigger] covers(m, k, q),
    }
}

pub open spec fn pv_spec<P: Prefix, T>(t: Seq<Node<P, T>>, i: int, r: Option<(&P, &T)>) -> bool {
    r.is_some() == t[i].value.is_some() && (r.is_some() ==> *r.unwrap().0 == t[i].prefix && *r.unwrap().1 == t[i].value.unwrap())
}

pub open spec fn path_ends<P: Prefix, T>(t: Seq<Node<P, T>>, idx: int, q: Seq<bool>) -> bool {
    let s = next_bit(kb(t, idx), q);
    kb(t, idx) =~= q || chd(t, idx, s).is_none() || !pre(kb(t, chd(t, idx, s).unwrap() as int), q)
}

pub open spec fn path_next<P: Prefix, T>(t: Seq<Node<P, T>>, idx: int, q: Seq<bool>) -> int {
    chd(t, idx, next_bit(kb(t, idx), q)).unwrap() as int
}

/// one LPM step at node idx: `best` covers everything strictly above idx, `best2 = pv(idx).or(best)`
pub proof fn lemma_lpmk_step<P: Prefix, T>(t: Seq<Node<P, T>>, live: ISet<int>, idx: int, q: Seq<bool>, best: Option<&P>, best2: Option<&P>)
    requires
        twf_live(t, live), live.contains(idx), pre(kb(t, idx), q),
        lpmk_upto(content(t, live), kb(t, idx), true, best),
        best2 == (if t[idx].value.is_some() { Some(&t[idx].prefix) } else { best }),
    ensures
        step_bounds(t, live, idx),
        lpmk_upto(content(t, live), kb(t, idx), false, best2),
        path_ends(t, idx, q) ==> lpmk_spec(content(t, live), q, best2),
        !path_ends(t, idx, q) ==> lpmk_upto(content(t, live), kb(t, path_next(t, idx, q)), true, best2),
{
    let m = content(t, live);
    lemma_step(t, live, idx, q);
    lemma_get_step(t, live, idx, kb(t, idx));
    if t[idx].value.is_some() {
        lemma_content_at(t, live, idx);
    }
    // (1) non-strict range at idx
    assert forall|k: Seq<bool>| #[trigger] in_range(m, k, kb(t, idx), false) && !in_range(m, k, kb(t, idx), true) implies
        k =~= kb(t, idx) && t[idx].value.is_some() by {
        assert(k =~= kb(t, idx));
    }
    assert(lpmk_upto(m, kb(t, idx), false, best2));
    if path_ends(t, idx, q) {
        assert forall|k: Seq<bool>| #[trigger] covers(m, k, q) implies in_range(m, k, kb(t, idx), false) by {
            lemma_pre_comparable(k, kb(t, idx), q);
            lemma_content_dom(t, live, k);
            let n = node_of(t, live, k);
            if !pre(k, kb(t, idx)) {
                assert(on_path_below(t, live, idx, q, n));
            }
        }
        if best2.is_some() {
            assert(in_range(m, best2.unwrap().bits(), kb(t, idx), false));
        }
    } else {
        let c = path_next(t, idx, q);
        assert forall|k: Seq<bool>| #[trigger] in_range(m, k, kb(t, c), true) implies in_range(m, k, kb(t, idx), false) by {
            lemma_pre_comparable(k, kb(t, idx), kb(t, c));
            lemma_content_dom(t, live, k);
            let n = node_of(t, live, k);
            if !pre(k, kb(t, idx)) {
                assert(on_path_below(t, live, idx, q, n));
            }
        }
        if best2.is_some() {
            assert(in_range(m, best2.unwrap().bits(), kb(t, idx), false));
            assert(in_range(m, best2.unwrap().bits(), kb(t, c), true));
        }
    }
}

pub proof fn lemma_lpm_step<P: Prefix, T>(t: Seq<Node<P, T>>, live: ISet<int>, idx: int, q: Seq<bool>, best: Option<(&P, &T)>, best2: Option<(&P, &T)>)
    requires
        twf_live(t, live), live.contains(idx), pre(kb(t, idx), q),
        lpm_upto(content(t, live), kb(t, idx), true, best),
        best2 == (if t[idx].value.is_some() { Some((&t[idx].prefix, &t[idx].value.unwrap())) } else { best }),
    ensures
        step_bounds(t, live, idx),
        path_ends(t, idx, q) ==> lpm_spec(content(t, live), q, best2),
        !path_ends(t, idx, q) ==> lpm_upto(content(t, live), kb(t, path_next(t, idx, q)), true, best2),
{
    lemma_lpmk_step(t, live, idx, q, fst(best), fst(best2));
    if t[idx].value.is_some() {
        lemma_content_at(t, live, idx);
    }
}

pub open spec fn idx_key<'a, P: Prefix, T>(t: Seq<Node<P, T>>, b: Option<usize>) -> Option<&'a P> {
    match b { Some(i) => Some(&t[i as int].prefix), None => None }
}

/// index-based LPM state of `get_lpm_mut` / `find_lpm`
pub open spec fn lpm_idx_upto<P: Prefix, T>(t: Seq<Node<P, T>>, live: ISet<int>, bound: Seq<bool>, strict: bool, b: Option<usize>) -> bool {
    (b.is_some() ==> stored(t, live, b.unwrap() as int)) && lpmk_upto(content(t, live), bound, strict, idx_key(t, b))
}

pub open spec fn lpm_idx_spec<P: Prefix, T>(t: Seq<Node<P, T>>, live: ISet<int>, q: Seq<bool>, b: Option<usize>) -> bool {
    (b.is_some() ==> stored(t, live, b.unwrap() as int)) && lpmk_spec(content(t, live), q, idx_key(t, b))
}

pub proof fn lemma_lpm_idx_step<P: Prefix, T>(t: Seq<Node<P, T>>, live: ISet<int>, idx: int, q: Seq<bool>, best: Option<usize>, best2: Option<usize>)
    requires
        twf_live(t, live), live.contains(idx), pre(kb(t, idx), q),
        lpm_idx_upto(t, live, kb(t, idx), true, best),
        t[idx].value.is_some() ==> best2.is_some() && best2.unwrap() as int == idx,
        t[idx].value.is_none() ==> best2 == best,
    ensures
        step_bounds(t, live, idx),
        path_ends(t, idx, q) ==> lpm_idx_spec(t, live, q, best2),
        !path_ends(t, idx, q) ==> lpm_idx_upto(t, live, kb(t, path_next(t, idx, q)), true, best2),
{
    lemma_lpmk_step(t, live, idx, q, idx_key(t, best), idx_key(t, best2));
}

/// from the index-based result to the (prefix, value) result
pub proof fn lemma_lpm_idx_final<P: Prefix, T>(t: Seq<Node<P, T>>, live: ISet<int>, q: Seq<bool>, b: Option<usize>)
    requires twf_live(t, live), lpm_idx_spec(t, live, q, b)
    ensures
        b.is_some() ==> 0 <= b.unwrap() < t.len() && t[b.unwrap() as int].value.is_some()
            && lpm_spec(content(t, live), q, Some((&t[b.unwrap() as int].prefix, &t[b.unwrap() as int].value.unwrap()))),
        b.is_none() ==> lpm_spec::<P, T>(content(t, live), q, None),
{
    lemma_glob(t, live);
    if b.is_some() {
        lemma_content_at(t, live, b.unwrap() as int);
    }
}

// ---- shortest prefix match (C09) ----

pub open spec fn spmk_spec<P: Prefix, T>(m: IMap<Seq<bool>, (P, T)>, q: Seq<bool>, rk: Option<&P>) -> bool {
    match rk {
        Some(p) => covers(m, p.bits(), q) && *p == m[p.bits()].0
            && (forall|k: Seq<bool>| #[trigger] covers(m, k, q) ==> k.len() >= p.bits().len()),
        None => forall|k: Seq<bool>| !#[trigger] covers(m, k, q),
    }
}

pub open spec fn none_upto<P: Prefix, T>(m: IMap<Seq<bool>, (P, T)>, bound: Seq<bool>) -> bool {
    forall|k: Seq<bool>| !#[trigger] in_range(m, k, bound, false)
}

pub proof fn lemma_spm_root<P: Prefix, T>(t: Seq<Node<P, T>>, live: ISet<int>, q: Seq<bool>)
    requires twf_live(t, live)
    ensures
        0 < t.len(), live.contains(0), pre(kb(t, 0), q),
        t[0].value.is_some() ==> spm_spec(content(t, live), q, Some((&t[0].prefix, &t[0].value.unwrap()))),
        t[0].value.is_none() ==> none_upto(content(t, live), kb(t, 0)),
{
    lemma_glob(t, live);
    let m = content(t, live);
    if t[0].value.is_some() {
        lemma_content_at(t, live, 0);
    } else {
        assert forall|k: Seq<bool>| !#[trigger] in_range(m, k, kb(t, 0), false) by {
            if in_range(m, k, kb(t, 0), false) {
                lemma_content_dom(t, live, k);
                let n = node_of(t, live, k);
                assert(live.contains(n) && live.contains(0));
                assert(kb(t, n) =~= kb(t, 0));
            }
        }
    }
}

pub proof fn lemma_spm_step<P: Prefix, T>(t: Seq<Node<P, T>>, live: ISet<int>, idx: int, q: Seq<bool>)
    requires
        twf_live(t, live), live.contains(idx), pre(kb(t, idx), q),
        none_upto(content(t, live), kb(t, idx)),
    ensures
        step_bounds(t, live, idx),
        t[idx].value.is_none(),
        path_ends(t, idx, q) ==> (forall|k: Seq<bool>| !#[trigger] covers(content(t, live), k, q)),
        !path_ends(t, idx, q) ==> ({
            let c = path_next(t, idx, q);
            (t[c].value.is_some() ==> spm_spec(content(t, live), q, Some((&t[c].prefix, &t[c].value.unwrap()))))
                && (t[c].value.is_none() ==> none_upto(content(t, live), kb(t, c)))
        }),
{
    let m = content(t, live);
    lemma_step(t, live, idx, q);
    if t[idx].value.is_some() {
        lemma_content_at(t, live, idx);
        assert(in_range(m, kb(t, idx), kb(t, idx), false));
    }
    if path_ends(t, idx, q) {
        assert forall|k: Seq<bool>| !#[trigger] covers(m, k, q) by {
            if covers(m, k, q) {
                lemma_pre_comparable(k, kb(t, idx), q);
                lemma_content_dom(t, live, k);
                let n = node_of(t, live, k);
                if pre(k, kb(t, idx)) {
                    assert(in_range(m, k, kb(t, idx), false));
                } else {
                    assert(on_path_below(t, live, idx, q, n));
                }
            }
        }
    } else {
        let c = path_next(t, idx, q);
        assert(live.contains(c));
        // every stored key covering q and not above idx is at or below c
        assert forall|k: Seq<bool>| #[trigger] covers(m, k, q) implies pre(kb(t, c), k) by {
            lemma_pre_comparable(k, kb(t, idx), q);
            lemma_content_dom(t, live, k);
            let n = node_of(t, live, k);
            if pre(k, kb(t, idx)) {
                assert(in_range(m, k, kb(t, idx), false));
            } else {
                assert(on_path_below(t, live, idx, q, n));
            }
        }
        if t[c].value.is_some() {
            lemma_content_at(t, live, c);
        } else {
            assert forall|k: Seq<bool>| !#[trigger] in_range(m, k, kb(t, c), false) by {
                if in_range(m, k, kb(t, c), false) {
                    lemma_pre_trans(k, kb(t, c), q);
                    assert(covers(m, k, q));
                    assert(k =~= kb(t, c));
                    lemma_content_dom(t, live, k);
                    let n = node_of(t, live, k);
                    assert(live.contains(n) && live.contains(c));
                    lemma_glob(t, live);
                }
            }
        }
    }
}

// ---- counting helpers for states of different arena length ----

pub proof fn lemma_nval_tail<P: Prefix, T>(t: Seq<Node<P, T>>, live: ISet<int>, n: int, n2: int)
    requires n <= n2, forall|i: int| n <= i < n2 ==> ind(t, live, i) == 0
    ensures nval(t, live, n2) == nval(t, live, n)
    decreases n2 - n
{
    if n < n2 { lemma_nval_tail(t, live, n, n2 - 1); }
}

/// indicators agree everywhere below n2 = max length except at k
pub proof fn lemma_nval_ext<P: Prefix, T>(t1: Seq<Node<P, T>>, l1: ISet<int>, n1: int, t2: Seq<Node<P, T>>, l2: ISet<int>, n2: int, k: int)
    requires
        0 <= n1, 0 <= n2,
        forall|i: int| i >= n1 ==> !l1.contains(i),
        forall|i: int| i >= n2 ==> !l2.contains(i),
        forall|i: int| 0 <= i && i != k ==> ind(t1, l1, i) == ind(t2, l2, i),
    ensures
        nval(t2, l2, n2) - nval(t1, l1, n1) == (if 0 <= k { ind(t2, l2, k) - ind(t1, l1, k) } else { 0 }),
{
    let n = if n1 > n2 { n1 } else { n2 };
    let nn = if k >= n { k + 1 } else { n };
    lemma_nval_tail(t1, l1, n1, nn);
    lemma_nval_tail(t2, l2, n2, nn);
    lemma_nval_diff(t1, l1, t2, l2, nn, k);
}

/// the state reached by `new_node` (not yet linked: the new slot is live but has no parent)
pub open spec fn new_node_post<P: Prefix, T>(m0: PrefixMap<P, T>, m1: PrefixMap<P, T>, prefix: P, value: Option<T>, r: usize) -> bool {
    r < m1.tab().len()
        && !m0.live().contains(r as int)
        && m1.live() =~= m0.live().insert(r as int)
        && m1.wf_free()
        && (if m0.free@.len() > 0 {
                m1.tab().len() == m0.tab().len() && r == m0.free@.last() && m1.free@ == m0.free@.drop_last()
            } else {
                m1.tab().len() == m0.tab().len() + 1 && r == m0.tab().len() && m1.free@ == m0.free@
            })
        && frame_nodes(m0.tab(), m1.tab(), r as int, r as int, r as int)
        && m1.tab()[r as int].prefix == prefix && m1.tab()[r as int].value == value
        && m1.tab()[r as int].left.is_none() && m1.tab()[r as int].right.is_none()
        && m1.count as int == m0.count as int + (if value.is_some() { 1int } else { 0int })
}

pub proof fn lemma_live_pop(free: Seq<usize>, n: int)
    requires free_ok(free, n), free.len() > 0
    ensures
        free_ok(free.drop_last(), n),
        !free.drop_last().contains(free.last()),
        forall|x: usize| x != free.last() ==> free.drop_last().contains(x) == free.contains(x),
        free.contains(free.last()),
        0 < free.last() < n,
{
    reveal(free_ok);
    let f2 = free.drop_last();
    assert forall|x: usize| x != free.last() implies f2.contains(x) == free.contains(x) by {
        if free.contains(x) {
            let k = choose|k: int| 0 <= k < free.len() && free[k] == x;
            assert(f2[k] == x);
        }
        if f2.contains(x) {
            let k = choose|k: int| 0 <= k < f2.len() && f2[k] == x;
            assert(free[k] == x);
        }
    }
    if f2.contains(free.last()) {
        let k = choose|k: int| 0 <= k < f2.len() && f2[k] == free.last();
        assert(free[k] == free[free.len() - 1]);
    }
    assert(free[free.len() - 1] == free.last());
}

pub proof fn lemma_live_push(free: Seq<usize>, n: int, x: usize)
    requires free_ok(free, n), 0 < x < n, !free.contains(x)
    ensures
        free_ok(free.push(x), n),
        forall|y: usize| free.push(x).contains(y) == (free.contains(y) || y == x),
{
    reveal(free_ok);
    let f2 = free.push(x);
    assert forall|y: usize| f2.contains(y) == (free.contains(y) || y == x) by {
        if free.contains(y) {
            let k = choose|k: int| 0 <= k < free.len() && free[k] == y;
            assert(f2[k] == y);
        }
        if y == x { assert(f2[free.len() as int] == x); }
        if f2.contains(y) {
            let k = choose|k: int| 0 <= k < f2.len() && f2[k] == y;
            if k < free.len() { assert(free[k] == y); }
        }
    }
    assert forall|k: int, l: int| 0 <= k < l < f2.len() implies f2[k] != f2[l] by {
        if l == free.len() {
            assert(f2[k] == free[k]);
        } else {
            assert(f2[k] == free[k] && f2[l] == free[l]);
        }
    }
}

/// common consequences of wf() used before arithmetic on the counter / arena
pub proof fn lemma_wf_bounds<P: Prefix, T>(m: PrefixMap<P, T>)
    requires m.wf()
    ensures m.count <= m.tab().len(), m.tab().len() >= 1, m.live().contains(0)
{
    lemma_nval_bounds(m.tab(), m.live(), m.tab().len() as int);
    lemma_glob(m.tab(), m.live());
}

pub proof fn lemma_free_empty(n: int)
    ensures free_ok(Seq::<usize>::empty(), n)
{
    reveal(free_ok);
}

/// the free list keeps its hygiene when the arena grows
pub proof fn lemma_free_grow(free: Seq<usize>, n: int, n2: int)
    requires free_ok(free, n), n <= n2
    ensures free_ok(free, n2)
{
    reveal(free_ok);
}

/// members of the free list are valid non-root slots
pub proof fn lemma_free_member(free: Seq<usize>, n: int, x: usize)
    requires free_ok(free, n), free.contains(x)
    ensures 0 < x < n
{
    reveal(free_ok);
}

/// exit-point lemma of `new_node`: phrased over the map states only (no local variable of the body),
/// so that it can be attached to every exit of the function
pub proof fn lemma_new_node_exit<P: Prefix, T>(m0: PrefixMap<P, T>, m1: PrefixMap<P, T>)
    requires m0.wf_free()
    ensures
        (m0.free@.len() > 0 && m1.free@ == m0.free@.drop_last() && m1.tab().len() == m0.tab().len()) ==>
            m1.wf_free() && !m0.live().contains(m0.free@.last() as int) && 0 < m0.free@.last() < m0.tab().len()
            && m1.live() =~= m0.live().insert(m0.free@.last() as int),
        (m1.free@ == m0.free@ && m1.tab().len() == m0.tab().len() + 1) ==>
            m1.wf_free() && !m0.live().contains(m0.tab().len() as int)
            && m1.live() =~= m0.live().insert(m0.tab().len() as int),
{
    if m0.free@.len() > 0 && m1.free@ == m0.free@.drop_last() && m1.tab().len() == m0.tab().len() {
        lemma_live_pop(m0.free@, m0.tab().len() as int);
        let idx = m0.free@.last();
        assert forall|i: int| m1.live().contains(i) == m0.live().insert(idx as int).contains(i) by {
            if 0 <= i < m1.tab().len() && i != idx {
                let x = i as usize;
                assert(m1.tab().len() == m1.table.0.len());
                assert(x != m0.free@.last());
                assert(m1.free@.contains(x) == m0.free@.contains(x));
            }
        }
    }
    if m1.free@ == m0.free@ && m1.tab().len() == m0.tab().len() + 1 {
        lemma_free_grow(m0.free@, m0.tab().len() as int, m1.tab().len() as int);
        let idx = m0.tab().len() as int;
        assert forall|i: int| m1.live().contains(i) == m0.live().insert(idx).contains(i) by {
            if i == idx {
                assert(m1.tab().len() == m1.table.0.len());
                if m0.free@.contains(i as usize) { lemma_free_member(m0.free@, m0.tab().len() as int, i as usize); }
            }
        }
    }
}

/// [C02/C13] the mutable twin of lpm_spec (the value reference is mutable)
pub open spec fn lpm_mut_spec<P: Prefix, T>(m: IMap<Seq<bool>, (P, T)>, q: Seq<bool>, r: Option<(&P, &mut T)>) -> bool {
    match r {
        Some(e) => covers(m, e.0.bits(), q) && *e.0 == m[e.0.bits()].0 && *e.1 == m[e.0.bits()].1
            && (forall|k: Seq<bool>| #[trigger] covers(m, k, q) ==> k.len() <= e.0.bits().len()),
        None => forall|k: Seq<bool>| !#[trigger] covers(m, k, q),
    }
}
