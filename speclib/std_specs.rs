// ---------------------------------------------------------------------------------------------
// speclib/std_specs.rs -- rule R9: one-line specifications of std functions that vstd does not
// cover.  Every item here is TRUSTED (listed in the evidence as assume_specification).
// ---------------------------------------------------------------------------------------------

pub assume_specification<T>[ Option::<T>::or ](a: Option<T>, b: Option<T>) -> (r: Option<T>)
    ensures r == (if a.is_some() { a } else { b });

pub assume_specification<T>[ Option::<T>::replace ](a: &mut Option<T>, v: T) -> (r: Option<T>)
    ensures r == *old(a), *final(a) == Some(v);

#[verifier::allow(undeclared_external_trait)]
pub assume_specification<T, F>[ Option::<T>::get_or_insert_with ](a: &mut Option<T>, f: F) -> (r: &mut T)
    where F: core::ops::FnOnce() -> T + core::marker::Destruct
    requires old(a).is_none() ==> f.requires(()),
    ensures
        old(a).is_some() ==> *r == old(a).unwrap(),
        old(a).is_none() ==> f.ensures((), *r),
        *final(a) == Some(*final(r));

// rule R11: `vec![a]` / `vec![a, b]` become calls of these helpers (bodies verified, not trusted)
pub open spec fn s1<T>(a: T) -> Seq<T> { Seq::<T>::empty().push(a) }
pub open spec fn s2<T>(a: T, b: T) -> Seq<T> { Seq::<T>::empty().push(a).push(b) }

pub fn vec1<T>(a: T) -> (v: Vec<T>)
    ensures v@ == s1(a), v@ =~= seq![a]
{
    let mut v = Vec::new();
    v.push(a);
    v
}

pub fn vec2<T>(a: T, b: T) -> (v: Vec<T>)
    ensures v@ == s2(a, b), v@ =~= seq![a, b]
{
    let mut v = Vec::new();
    v.push(a);
    v.push(b);
    v
}

pub assume_specification<T>[ core::mem::replace::<T> ](dest: &mut T, src: T) -> (r: T)
    ensures r == *old(dest), *final(dest) == src;

pub assume_specification<T>[ bool::then_some::<T> ](b: bool, v: T) -> (r: Option<T>)
    ensures r == (if b { Some(v) } else { None });

// `Vec::extend(Vec)` (rule R21 rewrites `X.extend(E)` on Vec<_> stacks to this helper): TRUSTED to append in order
#[verifier::external_body]
pub fn vec_extend<T>(v: &mut Vec<T>, w: Vec<T>)
    ensures final(v)@ == old(v)@ + w@
{
    v.extend(w)
}

// rule R24: a generic `I: IntoIterator` argument is modelled by the finite sequence of items it will yield.
// TRUSTED: into_iter_model == IntoIterator::into_iter, src_next == Iterator::next (head / tail of that sequence).
pub uninterp spec fn src_items<I: Iterator>(it: I) -> Seq<I::Item>;
pub uninterp spec fn into_items<I: IntoIterator>(it: I) -> Seq<I::Item>;

#[verifier::external_body]
pub fn src_next<I: Iterator>(it: &mut I) -> (r: Option<I::Item>)
    ensures
        match r {
            Some(x) => src_items(*old(it)).len() > 0 && x == src_items(*old(it))[0] && src_items(*final(it)) == src_items(*old(it)).skip(1),
            None => src_items(*old(it)).len() == 0 && src_items(*final(it)).len() == 0,
        }
{ it.next() }

#[verifier::external_body]
pub fn into_iter_model<I: IntoIterator>(i: I) -> (r: I::IntoIter)
    ensures src_items(r) == into_items(i)
{ i.into_iter() }

// rule R25: a closure `|p, _| f(p)` that only forwards to a captured `FnMut` (Verus has no closures capturing `&mut`)
// is replaced by this adapter.  TRUSTED: the adapter behaves like `f` on its first argument.
#[verifier::external_body]
pub fn adapt_key_pred<P, V, F: FnMut(&P) -> bool>(f: F) -> (g: impl FnMut(&P, &V) -> bool)
    ensures
        forall|q: &P, v: &V| #[trigger] g.requires((q, v)) == f.requires((q,)),
        forall|q: &P, v: &V, b: bool| #[trigger] g.ensures((q, v), b) == f.ensures((q,), b),
{
    let mut f = f;
    move |q: &P, _v: &V| f(q)
}

// vacuity probes (DESIGN 3.6): body of every probe function; returns an arbitrary value, no specification
#[verifier::external_body]
pub fn probe_any<T>() -> T { unimplemented!() }

// rule R9: `<[T]>::reverse` (also reached from `Vec::reverse` through deref).  TRUSTED.  The code of /repo never reverses
// a work list; the specification exists so that a change which does is decided instead of leaving the Verus subset.
pub assume_specification<T>[ <[T]>::reverse ](s: &mut [T])
    ensures final(s)@ == old(s)@.reverse();

// rule R9 (continued): pure Option combinators that vstd does not cover.  TRUSTED one-line specifications; none of them is
// used by /repo today - they exist so that a change which starts using one is decided instead of leaving the Verus subset.
pub assume_specification<T, U>[ Option::<T>::and ](a: Option<T>, b: Option<U>) -> (r: Option<U>)
    ensures r == (if a.is_some() { b } else { None });

pub assume_specification<T>[ Option::<T>::xor ](a: Option<T>, b: Option<T>) -> (r: Option<T>)
    ensures r == (match (a, b) { (Some(x), None) => Some(x), (None, Some(y)) => Some(y), _ => None });

pub assume_specification<T, U>[ Option::<T>::zip ](a: Option<T>, b: Option<U>) -> (r: Option<(T, U)>)
    ensures r == (match (a, b) { (Some(x), Some(y)) => Some((x, y)), _ => None });

pub assume_specification<T>[ Option::<Option<T>>::flatten ](a: Option<Option<T>>) -> (r: Option<T>)
    ensures r == (match a { Some(x) => x, None => None });

// rule R27: `opt.as_mut().map(f)` with the user's `f: FnOnce(&mut T)` (Entry::and_modify) -> this helper.  Verus has no
// specification form for a closure that takes `&mut T`; TRUSTED: the call may write any value through the reference (no
// postcondition), and does nothing else.
#[verifier::external_body]
pub fn opt_modify<T, F: FnOnce(&mut T)>(o: Option<&mut T>, f: F)
{
    o.map(f);
}
