// ---------------------------------------------------------------------------------------------
// speclib/setops.rs -- simultaneous traversal of two views (C05-C08): common vocabulary.
// tl / tr are the two arenas, xa / xb the key regions of the two views.
// ---------------------------------------------------------------------------------------------

/// node n of arena t belongs to the view with key region x
pub open spec fn vin<P: Prefix, T>(t: Seq<Node<P, T>>, x: Seq<bool>, n: int) -> bool {
    tlive(t).contains(n) && pre(x, kb(t, n))
}

/// key k lies in region z (strictly below z when `st`)
pub open spec fn in_reg(z: Seq<bool>, st: bool, k: Seq<bool>) -> bool {
    if st { spre(z, k) } else { pre(z, k) }
}

pub proof fn lemma_in_reg_trans(z: Seq<bool>, st: bool, a: Seq<bool>, b: Seq<bool>)
    requires in_reg(z, st, a), pre(a, b)
    ensures in_reg(z, st, b), pre(z, b)
{
}

/// all view nodes inside region (z, st) lie at or below node a  (a = None: there are none)
pub open spec fn side_ok<P: Prefix, T>(t: Seq<Node<P, T>>, x: Seq<bool>, z: Seq<bool>, st: bool, a: Option<usize>) -> bool {
    match a {
        Some(i) => vin(t, x, i as int) && in_reg(z, st, kb(t, i as int))
            && (forall|n: int| #![trigger tlive(t).contains(n)] vin(t, x, n) && in_reg(z, st, kb(t, n)) ==> pre(kb(t, i as int), kb(t, n))),
        None => forall|n: int| #![trigger tlive(t).contains(n)] vin(t, x, n) ==> !in_reg(z, st, kb(t, n)),
    }
}

/// the shape of a stack entry of any of the three traversals
pub enum Ent {
    Both(usize, usize),
    FirstL(usize, usize),
    FirstR(usize, usize),
    OnlyL(usize),
    OnlyR(usize),
}

/// key region owned by an entry
pub open spec fn ent_key<P: Prefix, L, R>(tl: Seq<Node<P, L>>, tr: Seq<Node<P, R>>, e: Ent) -> Seq<bool> {
    match e {
        Ent::Both(l, _) => kb(tl, l as int),
        Ent::FirstL(l, _) => kb(tl, l as int),
        Ent::FirstR(_, r) => kb(tr, r as int),
        Ent::OnlyL(l) => kb(tl, l as int),
        Ent::OnlyR(r) => kb(tr, r as int),
    }
}

/// the entry describes both views completely inside its region
pub open spec fn ent_ok<P: Prefix, L, R>(tl: Seq<Node<P, L>>, tr: Seq<Node<P, R>>, xa: Seq<bool>, xb: Seq<bool>, e: Ent) -> bool {
    match e {
        Ent::Both(l, r) => vin(tl, xa, l as int) && vin(tr, xb, r as int) && kb(tl, l as int) =~= kb(tr, r as int),
        Ent::FirstL(l, r) => vin(tl, xa, l as int) && spre(kb(tl, l as int), kb(tr, r as int)) && side_ok(tr, xb, kb(tl, l as int), false, Some(r)),
        Ent::FirstR(l, r) => vin(tr, xb, r as int) && spre(kb(tr, r as int), kb(tl, l as int)) && side_ok(tl, xa, kb(tr, r as int), false, Some(l)),
        Ent::OnlyL(l) => vin(tl, xa, l as int) && side_ok::<P, R>(tr, xb, kb(tl, l as int), false, None),
        Ent::OnlyR(r) => vin(tr, xb, r as int) && side_ok::<P, L>(tl, xa, kb(tr, r as int), false, None),
    }
}

/// a list of entries as produced by next_indices*, in push order: pairwise incomparable regions, later pushed = smaller
#[verifier::opaque]
pub open spec fn ents_ok<P: Prefix, L, R>(tl: Seq<Node<P, L>>, tr: Seq<Node<P, R>>, xa: Seq<bool>, xb: Seq<bool>, z: Seq<bool>, st: bool, es: Seq<Ent>) -> bool {
    &&& (forall|k: int| 0 <= k < es.len() ==> ent_ok(tl, tr, xa, xb, #[trigger] es[k]) && in_reg(z, st, ent_key(tl, tr, es[k])))
    &&& (forall|k: int, l: int| 0 <= k < l < es.len() ==>
            incomparable(ent_key(tl, tr, #[trigger] es[k]), ent_key(tl, tr, #[trigger] es[l])) && lex_lt(ent_key(tl, tr, es[l]), ent_key(tl, tr, es[k])))
}

/// every view node inside region z is covered by one of the entries
#[verifier::opaque]
pub open spec fn ents_cover<P: Prefix, L, R>(tl: Seq<Node<P, L>>, tr: Seq<Node<P, R>>, xa: Seq<bool>, xb: Seq<bool>, z: Seq<bool>, st: bool, es: Seq<Ent>) -> bool {
    &&& (forall|n: int| #![trigger tlive(tl).contains(n)] vin(tl, xa, n) && in_reg(z, st, kb(tl, n)) ==> exists|k: int| 0 <= k < es.len() && pre(ent_key(tl, tr, #[trigger] es[k]), kb(tl, n)))
    &&& (forall|m: int| #![trigger tlive(tr).contains(m)] vin(tr, xb, m) && in_reg(z, st, kb(tr, m)) ==> exists|k: int| 0 <= k < es.len() && pre(ent_key(tl, tr, #[trigger] es[k]), kb(tr, m)))
}

/// contract of `next_indices(a, b)` for the common sub-region z
pub open spec fn ni_pre<P: Prefix, L, R>(tl: Seq<Node<P, L>>, tr: Seq<Node<P, R>>, xa: Seq<bool>, xb: Seq<bool>, z: Seq<bool>, st: bool, a: Option<usize>, b: Option<usize>) -> bool {
    twf(tl) && twf(tr) && side_ok(tl, xa, z, st, a) && side_ok(tr, xb, z, st, b)
}

pub open spec fn ni_post<P: Prefix, L, R>(tl: Seq<Node<P, L>>, tr: Seq<Node<P, R>>, xa: Seq<bool>, xb: Seq<bool>, z: Seq<bool>, st: bool, es: Seq<Ent>) -> bool {
    ents_ok(tl, tr, xa, xb, z, st, es) && ents_cover(tl, tr, xa, xb, z, st, es)
}

// ---- case lemmas of next_indices ----

pub proof fn lemma_ni_none<P: Prefix, L, R>(tl: Seq<Node<P, L>>, tr: Seq<Node<P, R>>, xa: Seq<bool>, xb: Seq<bool>, z: Seq<bool>, st: bool)
    requires ni_pre::<P, L, R>(tl, tr, xa, xb, z, st, None, None)
    ensures ni_post(tl, tr, xa, xb, z, st, Seq::<Ent>::empty())
{
    reveal(ents_ok); reveal(ents_cover);
}

pub proof fn lemma_ni_only_l<P: Prefix, L, R>(tl: Seq<Node<P, L>>, tr: Seq<Node<P, R>>, xa: Seq<bool>, xb: Seq<bool>, z: Seq<bool>, st: bool, a: usize)
    requires ni_pre::<P, L, R>(tl, tr, xa, xb, z, st, Some(a), None)
    ensures ni_post(tl, tr, xa, xb, z, st, s1(Ent::OnlyL(a)))
{
    reveal(ents_ok); reveal(ents_cover);
    let es = s1(Ent::OnlyL(a));
    assert(es[0] == Ent::OnlyL(a));
    assert forall|m: int| #![trigger tlive(tr).contains(m)] vin(tr, xb, m) implies !pre(kb(tl, a as int), kb(tr, m)) by {
        if pre(kb(tl, a as int), kb(tr, m)) { lemma_in_reg_trans(z, st, kb(tl, a as int), kb(tr, m)); }
    }
    assert forall|n: int| #![trigger tlive(tl).contains(n)] vin(tl, xa, n) && in_reg(z, st, kb(tl, n)) implies exists|k: int| 0 <= k < es.len() && pre(ent_key(tl, tr, #[trigger] es[k]), kb(tl, n)) by {
        assert(pre(ent_key(tl, tr, es[0]), kb(tl, n)));
    }
}

pub proof fn lemma_ni_only_r<P: Prefix, L, R>(tl: Seq<Node<P, L>>, tr: Seq<Node<P, R>>, xa: Seq<bool>, xb: Seq<bool>, z: Seq<bool>, st: bool, b: usize)
    requires ni_pre::<P, L, R>(tl, tr, xa, xb, z, st, None, Some(b))
    ensures ni_post(tl, tr, xa, xb, z, st, s1(Ent::OnlyR(b)))
{
    reveal(ents_ok); reveal(ents_cover);
    let es = s1(Ent::OnlyR(b));
    assert(es[0] == Ent::OnlyR(b));
    assert forall|n: int| #![trigger tlive(tl).contains(n)] vin(tl, xa, n) implies !pre(kb(tr, b as int), kb(tl, n)) by {
        if pre(kb(tr, b as int), kb(tl, n)) { lemma_in_reg_trans(z, st, kb(tr, b as int), kb(tl, n)); }
    }
    assert forall|m: int| #![trigger tlive(tr).contains(m)] vin(tr, xb, m) && in_reg(z, st, kb(tr, m)) implies exists|k: int| 0 <= k < es.len() && pre(ent_key(tl, tr, #[trigger] es[k]), kb(tr, m)) by {
        assert(pre(ent_key(tl, tr, es[0]), kb(tr, m)));
    }
}

pub proof fn lemma_ni_both<P: Prefix, L, R>(tl: Seq<Node<P, L>>, tr: Seq<Node<P, R>>, xa: Seq<bool>, xb: Seq<bool>, z: Seq<bool>, st: bool, a: usize, b: usize)
    requires ni_pre::<P, L, R>(tl, tr, xa, xb, z, st, Some(a), Some(b)), kb(tl, a as int) =~= kb(tr, b as int)
    ensures ni_post(tl, tr, xa, xb, z, st, s1(Ent::Both(a, b)))
{
    reveal(ents_ok); reveal(ents_cover);
    let es = s1(Ent::Both(a, b));
    assert(es[0] == Ent::Both(a, b));
    assert forall|n: int| #![trigger tlive(tl).contains(n)] vin(tl, xa, n) && in_reg(z, st, kb(tl, n)) implies exists|k: int| 0 <= k < es.len() && pre(ent_key(tl, tr, #[trigger] es[k]), kb(tl, n)) by {
        assert(pre(ent_key(tl, tr, es[0]), kb(tl, n)));
    }
    assert forall|m: int| #![trigger tlive(tr).contains(m)] vin(tr, xb, m) && in_reg(z, st, kb(tr, m)) implies exists|k: int| 0 <= k < es.len() && pre(ent_key(tl, tr, #[trigger] es[k]), kb(tr, m)) by {
        assert(pre(ent_key(tl, tr, es[0]), kb(tr, m)));
    }
}

pub proof fn lemma_ni_first_l<P: Prefix, L, R>(tl: Seq<Node<P, L>>, tr: Seq<Node<P, R>>, xa: Seq<bool>, xb: Seq<bool>, z: Seq<bool>, st: bool, a: usize, b: usize)
    requires ni_pre::<P, L, R>(tl, tr, xa, xb, z, st, Some(a), Some(b)), spre(kb(tl, a as int), kb(tr, b as int))
    ensures ni_post(tl, tr, xa, xb, z, st, s1(Ent::FirstL(a, b)))
{
    reveal(ents_ok); reveal(ents_cover);
    let es = s1(Ent::FirstL(a, b));
    assert(es[0] == Ent::FirstL(a, b));
    assert forall|m: int| #![trigger tlive(tr).contains(m)] vin(tr, xb, m) && pre(kb(tl, a as int), kb(tr, m)) implies pre(kb(tr, b as int), kb(tr, m)) by {
        lemma_in_reg_trans(z, st, kb(tl, a as int), kb(tr, m));
    }
    assert forall|n: int| #![trigger tlive(tl).contains(n)] vin(tl, xa, n) && in_reg(z, st, kb(tl, n)) implies exists|k: int| 0 <= k < es.len() && pre(ent_key(tl, tr, #[trigger] es[k]), kb(tl, n)) by {
        assert(pre(ent_key(tl, tr, es[0]), kb(tl, n)));
    }
    assert forall|m: int| #![trigger tlive(tr).contains(m)] vin(tr, xb, m) && in_reg(z, st, kb(tr, m)) implies exists|k: int| 0 <= k < es.len() && pre(ent_key(tl, tr, #[trigger] es[k]), kb(tr, m)) by {
        lemma_pre_trans(kb(tl, a as int), kb(tr, b as int), kb(tr, m));
        assert(pre(ent_key(tl, tr, es[0]), kb(tr, m)));
    }
}

pub proof fn lemma_ni_first_r<P: Prefix, L, R>(tl: Seq<Node<P, L>>, tr: Seq<Node<P, R>>, xa: Seq<bool>, xb: Seq<bool>, z: Seq<bool>, st: bool, a: usize, b: usize)
    requires ni_pre::<P, L, R>(tl, tr, xa, xb, z, st, Some(a), Some(b)), spre(kb(tr, b as int), kb(tl, a as int))
    ensures ni_post(tl, tr, xa, xb, z, st, s1(Ent::FirstR(a, b)))
{
    reveal(ents_ok); reveal(ents_cover);
    let es = s1(Ent::FirstR(a, b));
    assert(es[0] == Ent::FirstR(a, b));
    assert forall|n: int| #![trigger tlive(tl).contains(n)] vin(tl, xa, n) && pre(kb(tr, b as int), kb(tl, n)) implies pre(kb(tl, a as int), kb(tl, n)) by {
        lemma_in_reg_trans(z, st, kb(tr, b as int), kb(tl, n));
    }
    assert forall|m: int| #![trigger tlive(tr).contains(m)] vin(tr, xb, m) && in_reg(z, st, kb(tr, m)) implies exists|k: int| 0 <= k < es.len() && pre(ent_key(tl, tr, #[trigger] es[k]), kb(tr, m)) by {
        assert(pre(ent_key(tl, tr, es[0]), kb(tr, m)));
    }
    assert forall|n: int| #![trigger tlive(tl).contains(n)] vin(tl, xa, n) && in_reg(z, st, kb(tl, n)) implies exists|k: int| 0 <= k < es.len() && pre(ent_key(tl, tr, #[trigger] es[k]), kb(tl, n)) by {
        lemma_pre_trans(kb(tr, b as int), kb(tl, a as int), kb(tl, n));
        assert(pre(ent_key(tl, tr, es[0]), kb(tl, n)));
    }
}

/// disjoint regions: two one-sided entries, the lexicographically smaller one on top (= last)
pub proof fn lemma_ni_split<P: Prefix, L, R>(tl: Seq<Node<P, L>>, tr: Seq<Node<P, R>>, xa: Seq<bool>, xb: Seq<bool>, z: Seq<bool>, st: bool, a: usize, b: usize)
    requires ni_pre::<P, L, R>(tl, tr, xa, xb, z, st, Some(a), Some(b)), incomparable(kb(tl, a as int), kb(tr, b as int))
    ensures
        lex_lt(kb(tl, a as int), kb(tr, b as int)) ==> ni_post(tl, tr, xa, xb, z, st, s2(Ent::OnlyR(b), Ent::OnlyL(a))),
        lex_lt(kb(tr, b as int), kb(tl, a as int)) ==> ni_post(tl, tr, xa, xb, z, st, s2(Ent::OnlyL(a), Ent::OnlyR(b))),
        lex_lt(kb(tl, a as int), kb(tr, b as int)) || lex_lt(kb(tr, b as int), kb(tl, a as int)),
{
    reveal(ents_ok); reveal(ents_cover);
    let ka = kb(tl, a as int); let kbb = kb(tr, b as int);
    let k = lemma_diff_exists(ka, kbb, 0);
    lemma_lex_incomparable(ka, kbb, k);
    assert forall|m: int| #![trigger tlive(tr).contains(m)] vin(tr, xb, m) implies !pre(ka, kb(tr, m)) by {
        if pre(ka, kb(tr, m)) {
            lemma_in_reg_trans(z, st, ka, kb(tr, m));
            lemma_pre_comparable(ka, kbb, kb(tr, m));
        }
    }
    assert forall|n: int| #![trigger tlive(tl).contains(n)] vin(tl, xa, n) implies !pre(kbb, kb(tl, n)) by {
        if pre(kbb, kb(tl, n)) {
            lemma_in_reg_trans(z, st, kbb, kb(tl, n));
            lemma_pre_comparable(ka, kbb, kb(tl, n));
        }
    }
    if lex_lt(ka, kbb) {
        let es = s2(Ent::OnlyR(b), Ent::OnlyL(a));
        assert(es[0] == Ent::OnlyR(b) && es[1] == Ent::OnlyL(a));
        assert forall|n: int| #![trigger tlive(tl).contains(n)] vin(tl, xa, n) && in_reg(z, st, kb(tl, n)) implies exists|k: int| 0 <= k < es.len() && pre(ent_key(tl, tr, #[trigger] es[k]), kb(tl, n)) by {
            assert(pre(ent_key(tl, tr, es[1]), kb(tl, n)));
        }
        assert forall|m: int| #![trigger tlive(tr).contains(m)] vin(tr, xb, m) && in_reg(z, st, kb(tr, m)) implies exists|k: int| 0 <= k < es.len() && pre(ent_key(tl, tr, #[trigger] es[k]), kb(tr, m)) by {
            assert(pre(ent_key(tl, tr, es[0]), kb(tr, m)));
        }
    }
    if lex_lt(kbb, ka) {
        let es = s2(Ent::OnlyL(a), Ent::OnlyR(b));
        assert(es[0] == Ent::OnlyL(a) && es[1] == Ent::OnlyR(b));
        assert forall|n: int| #![trigger tlive(tl).contains(n)] vin(tl, xa, n) && in_reg(z, st, kb(tl, n)) implies exists|k: int| 0 <= k < es.len() && pre(ent_key(tl, tr, #[trigger] es[k]), kb(tl, n)) by {
            assert(pre(ent_key(tl, tr, es[0]), kb(tl, n)));
        }
        assert forall|m: int| #![trigger tlive(tr).contains(m)] vin(tr, xb, m) && in_reg(z, st, kb(tr, m)) implies exists|k: int| 0 <= k < es.len() && pre(ent_key(tl, tr, #[trigger] es[k]), kb(tr, m)) by {
            assert(pre(ent_key(tl, tr, es[1]), kb(tr, m)));
        }
    }
}

/// masks order keys like the lexicographic order (for equal lengths or incomparable keys): wrapper of the trait lemma
pub proof fn lemma_mask_lex<P: Prefix>(p: &P, q: &P)
    ensures
        p.bits().len() == q.bits().len() ==> ((p.mask_val() < q.mask_val()) == lex_lt(p.bits(), q.bits())) && ((p.mask_val() == q.mask_val()) == (p.bits() =~= q.bits())),
        incomparable(p.bits(), q.bits()) ==> ((p.mask_val() < q.mask_val()) == lex_lt(p.bits(), q.bits())),
        p.bits().len() == q.bits().len() && !(p.bits() =~= q.bits()) ==> incomparable(p.bits(), q.bits()),
{
    p.lemma_mask_order(q);
    if p.bits().len() == q.bits().len() && !(p.bits() =~= q.bits()) {
        if pre(p.bits(), q.bits()) { assert(p.bits() =~= q.bits()); }
        if pre(q.bits(), p.bits()) { assert(p.bits() =~= q.bits()); }
    }
}

/// all cases of next_indices at once (called once at the start of the function body)
pub open spec fn ni_cases<P: Prefix, L, R>(tl: Seq<Node<P, L>>, tr: Seq<Node<P, R>>, xa: Seq<bool>, xb: Seq<bool>, z: Seq<bool>, st: bool, a: Option<usize>, b: Option<usize>) -> bool {
    match (a, b) {
        (None, None) => ni_post(tl, tr, xa, xb, z, st, Seq::<Ent>::empty()),
        (Some(a), None) => ni_post(tl, tr, xa, xb, z, st, s1(Ent::OnlyL(a))),
        (None, Some(b)) => ni_post(tl, tr, xa, xb, z, st, s1(Ent::OnlyR(b))),
        (Some(a), Some(b)) => {
            let ka = kb(tl, a as int); let kbb = kb(tr, b as int);
            (ka =~= kbb ==> ni_post(tl, tr, xa, xb, z, st, s1(Ent::Both(a, b))))
            && (spre(ka, kbb) ==> ni_post(tl, tr, xa, xb, z, st, s1(Ent::FirstL(a, b))))
            && (spre(kbb, ka) ==> ni_post(tl, tr, xa, xb, z, st, s1(Ent::FirstR(a, b))))
            && (incomparable(ka, kbb) && lex_lt(ka, kbb) ==> ni_post(tl, tr, xa, xb, z, st, s2(Ent::OnlyR(b), Ent::OnlyL(a))))
            && (incomparable(ka, kbb) && lex_lt(kbb, ka) ==> ni_post(tl, tr, xa, xb, z, st, s2(Ent::OnlyL(a), Ent::OnlyR(b))))
            && (incomparable(ka, kbb) ==> lex_lt(ka, kbb) || lex_lt(kbb, ka))
        },
    }
}

pub proof fn lemma_ni_cases<P: Prefix, L, R>(tl: Seq<Node<P, L>>, tr: Seq<Node<P, R>>, a: Option<usize>, b: Option<usize>)
    ensures forall|xa: Seq<bool>, xb: Seq<bool>, z: Seq<bool>, st: bool| #[trigger] ni_pre(tl, tr, xa, xb, z, st, a, b) ==> ni_cases(tl, tr, xa, xb, z, st, a, b)
{
    assert forall|xa: Seq<bool>, xb: Seq<bool>, z: Seq<bool>, st: bool| #[trigger] ni_pre(tl, tr, xa, xb, z, st, a, b) implies ni_cases(tl, tr, xa, xb, z, st, a, b) by {
        match (a, b) {
            (None, None) => { lemma_ni_none(tl, tr, xa, xb, z, st); },
            (Some(a), None) => { lemma_ni_only_l(tl, tr, xa, xb, z, st, a); },
            (None, Some(b)) => { lemma_ni_only_r(tl, tr, xa, xb, z, st, b); },
            (Some(a), Some(b)) => {
                let ka = kb(tl, a as int); let kbb = kb(tr, b as int);
                if ka =~= kbb { lemma_ni_both(tl, tr, xa, xb, z, st, a, b); }
                if spre(ka, kbb) { lemma_ni_first_l(tl, tr, xa, xb, z, st, a, b); }
                if spre(kbb, ka) { lemma_ni_first_r(tl, tr, xa, xb, z, st, a, b); }
                if incomparable(ka, kbb) { lemma_ni_split(tl, tr, xa, xb, z, st, a, b); }
            },
        }
    }
}

// ---- one-sided descent: the left view's node l is strictly above the right view's node r (entry FirstL(l, r)) ----

/// consequences of the FirstL entry invariant used by all cases
pub proof fn lemma_fl_facts<P: Prefix, L, R>(tl: Seq<Node<P, L>>, tr: Seq<Node<P, R>>, xa: Seq<bool>, xb: Seq<bool>, l: usize, r: usize)
    requires twf(tl), twf(tr), ent_ok(tl, tr, xa, xb, Ent::FirstL(l, r))
    ensures
        step_bounds(tl, tlive(tl), l as int), tlive(tr).contains(r as int), r < tr.len(),
        forall|s: bool| #![trigger chd(tl, l as int, s)] chd(tl, l as int, s).is_some() ==> vin(tl, xa, chd(tl, l as int, s).unwrap() as int),
        // every left-view node strictly below l lies below the child of l on its side
        forall|n: int| #![trigger tlive(tl).contains(n)] vin(tl, xa, n) && spre(kb(tl, l as int), kb(tl, n)) ==>
            chd(tl, l as int, kb(tl, n)[kb(tl, l as int).len() as int]).is_some()
            && pre(kb(tl, chd(tl, l as int, kb(tl, n)[kb(tl, l as int).len() as int]).unwrap() as int), kb(tl, n)),
{
    let live = tlive(tl);
    lemma_twf_live(tl);
    lemma_live_bound(tr, r as int);
    lemma_pre_refl(kb(tl, l as int));
    lemma_step(tl, live, l as int, kb(tl, l as int));
    assert forall|s: bool| #![trigger chd(tl, l as int, s)] chd(tl, l as int, s).is_some() implies vin(tl, xa, chd(tl, l as int, s).unwrap() as int) by {
        lemma_pre_trans(xa, kb(tl, l as int), kb(tl, chd(tl, l as int, s).unwrap() as int));
    }
    assert forall|n: int| #![trigger tlive(tl).contains(n)] vin(tl, xa, n) && spre(kb(tl, l as int), kb(tl, n)) implies
            chd(tl, l as int, kb(tl, n)[kb(tl, l as int).len() as int]).is_some()
            && pre(kb(tl, chd(tl, l as int, kb(tl, n)[kb(tl, l as int).len() as int]).unwrap() as int), kb(tl, n)) by {
        lemma_desc(tl, live, l as int, n);
    }
}

/// l has no children: only the right view's node remains
pub proof fn lemma_fl_none<P: Prefix, L, R>(tl: Seq<Node<P, L>>, tr: Seq<Node<P, R>>, xa: Seq<bool>, xb: Seq<bool>, l: usize, r: usize)
    requires twf(tl), twf(tr), ent_ok(tl, tr, xa, xb, Ent::FirstL(l, r)), tl[l as int].left.is_none(), tl[l as int].right.is_none()
    ensures ni_post(tl, tr, xa, xb, kb(tl, l as int), true, s1(Ent::OnlyR(r)))
{
    reveal(ents_ok); reveal(ents_cover);
    lemma_fl_facts(tl, tr, xa, xb, l, r);
    let x = kb(tl, l as int);
    let es = s1(Ent::OnlyR(r));
    assert(es[0] == Ent::OnlyR(r));
    assert forall|n: int| #![trigger tlive(tl).contains(n)] vin(tl, xa, n) implies !spre(x, kb(tl, n)) by {
        if spre(x, kb(tl, n)) { assert(chd(tl, l as int, kb(tl, n)[x.len() as int]).is_some()); }
    }
    assert forall|n: int| #![trigger tlive(tl).contains(n)] vin(tl, xa, n) implies !pre(kb(tr, r as int), kb(tl, n)) by {
        if pre(kb(tr, r as int), kb(tl, n)) { assert(spre(x, kb(tl, n))); }
    }
    assert forall|m: int| #![trigger tlive(tr).contains(m)] vin(tr, xb, m) && spre(x, kb(tr, m)) implies exists|k: int| 0 <= k < es.len() && pre(ent_key(tl, tr, #[trigger] es[k]), kb(tr, m)) by {
        assert(pre(ent_key(tl, tr, es[0]), kb(tr, m)));
    }
}

/// l has exactly one child c: continue with (c, r) in the region strictly below l
pub proof fn lemma_fl_one<P: Prefix, L, R>(tl: Seq<Node<P, L>>, tr: Seq<Node<P, R>>, xa: Seq<bool>, xb: Seq<bool>, l: usize, r: usize, s: bool)
    requires twf(tl), twf(tr), ent_ok(tl, tr, xa, xb, Ent::FirstL(l, r)), chd(tl, l as int, s).is_some(), chd(tl, l as int, !s).is_none()
    ensures ni_pre(tl, tr, xa, xb, kb(tl, l as int), true, chd(tl, l as int, s), Some(r)), tlive(tl).contains(chd(tl, l as int, s).unwrap() as int)
{
    lemma_fl_facts(tl, tr, xa, xb, l, r);
    let x = kb(tl, l as int);
    let c = chd(tl, l as int, s).unwrap() as int;
    assert forall|n: int| #![trigger tlive(tl).contains(n)] vin(tl, xa, n) && spre(x, kb(tl, n)) implies pre(kb(tl, c), kb(tl, n)) by {
        assert(chd(tl, l as int, kb(tl, n)[x.len() as int]).is_some());
    }
    assert forall|m: int| #![trigger tlive(tr).contains(m)] vin(tr, xb, m) && spre(x, kb(tr, m)) implies pre(kb(tr, r as int), kb(tr, m)) by { }
}

/// l has two children; r lies on side s: first pair the child on that side with r in the half region x.push(s) ...
pub proof fn lemma_fl_two_pre<P: Prefix, L, R>(tl: Seq<Node<P, L>>, tr: Seq<Node<P, R>>, xa: Seq<bool>, xb: Seq<bool>, l: usize, r: usize, s: bool)
    requires
        twf(tl), twf(tr), ent_ok(tl, tr, xa, xb, Ent::FirstL(l, r)), chd(tl, l as int, s).is_some(), chd(tl, l as int, !s).is_some(),
        kb(tr, r as int)[kb(tl, l as int).len() as int] == s,
    ensures
        ni_pre(tl, tr, xa, xb, kb(tl, l as int).push(s), false, chd(tl, l as int, s), Some(r)),
        tlive(tl).contains(chd(tl, l as int, s).unwrap() as int), tlive(tl).contains(chd(tl, l as int, !s).unwrap() as int),
{
    lemma_fl_facts(tl, tr, xa, xb, l, r);
    let x = kb(tl, l as int);
    let zs = x.push(s);
    let c = chd(tl, l as int, s).unwrap() as int;
    assert forall|k: Seq<bool>| spre(x, k) && k[x.len() as int] == s implies pre(zs, k) by {
        assert forall|j: int| 0 <= j < zs.len() implies zs[j] == k[j] by { if j < x.len() { assert(zs[j] == x[j]); } }
    }
    assert forall|k: Seq<bool>| pre(zs, k) implies spre(x, k) && k[x.len() as int] == s by {
        assert(zs[x.len() as int] == s);
        assert forall|j: int| 0 <= j < x.len() implies x[j] == k[j] by { assert(zs[j] == x[j]); }
    }
    assert(pre(zs, kb(tl, c)));
    assert(pre(zs, kb(tr, r as int)));
    assert forall|n: int| #![trigger tlive(tl).contains(n)] vin(tl, xa, n) && pre(zs, kb(tl, n)) implies pre(kb(tl, c), kb(tl, n)) by {
        assert(spre(x, kb(tl, n)) && kb(tl, n)[x.len() as int] == s);
    }
    assert forall|m: int| #![trigger tlive(tr).contains(m)] vin(tr, xb, m) && pre(zs, kb(tr, m)) implies pre(kb(tr, r as int), kb(tr, m)) by {
        assert(spre(x, kb(tr, m)));
    }
}

/// the half region x.push(s) consists of the keys strictly below x whose next bit is s
pub proof fn lemma_half_region(x: Seq<bool>, s: bool)
    ensures forall|k: Seq<bool>| #[trigger] pre(x.push(s), k) == (spre(x, k) && k[x.len() as int] == s)
{
    let zs = x.push(s);
    assert forall|k: Seq<bool>| #[trigger] pre(zs, k) == (spre(x, k) && k[x.len() as int] == s) by {
        if pre(zs, k) {
            assert(zs[x.len() as int] == s);
            assert forall|j: int| 0 <= j < x.len() implies x[j] == k[j] by { assert(zs[j] == x[j]); }
        }
        if spre(x, k) && k[x.len() as int] == s {
            assert forall|j: int| 0 <= j < zs.len() implies zs[j] == k[j] by { if j < x.len() { assert(zs[j] == x[j]); } }
        }
    }
}

/// the other child o of l (on side !s) owns a region without right-view nodes, ordered against the half region x.push(s)
pub proof fn lemma_fl_other<P: Prefix, L, R>(tl: Seq<Node<P, L>>, tr: Seq<Node<P, R>>, xa: Seq<bool>, xb: Seq<bool>, l: usize, r: usize, s: bool)
    requires
        twf(tl), twf(tr), ent_ok(tl, tr, xa, xb, Ent::FirstL(l, r)), chd(tl, l as int, s).is_some(), chd(tl, l as int, !s).is_some(),
        kb(tr, r as int)[kb(tl, l as int).len() as int] == s,
    ensures
        ent_ok(tl, tr, xa, xb, Ent::OnlyL(chd(tl, l as int, !s).unwrap())),
        spre(kb(tl, l as int), kb(tl, chd(tl, l as int, !s).unwrap() as int)),
        kb(tl, chd(tl, l as int, !s).unwrap() as int)[kb(tl, l as int).len() as int] == !s,
        forall|k: Seq<bool>| #[trigger] pre(kb(tl, l as int).push(s), k) ==> incomparable(kb(tl, chd(tl, l as int, !s).unwrap() as int), k)
            && (if s { lex_lt(kb(tl, chd(tl, l as int, !s).unwrap() as int), k) } else { lex_lt(k, kb(tl, chd(tl, l as int, !s).unwrap() as int)) }),
{
    lemma_fl_facts(tl, tr, xa, xb, l, r);
    let x = kb(tl, l as int);
    lemma_half_region(x, s);
    let o = chd(tl, l as int, !s).unwrap();
    let ko = kb(tl, o as int);
    assert forall|m: int| #![trigger tlive(tr).contains(m)] vin(tr, xb, m) implies !pre(ko, kb(tr, m)) by {
        if pre(ko, kb(tr, m)) {
            lemma_pre_trans(x, ko, kb(tr, m));
            assert(pre(kb(tr, r as int), kb(tr, m)));
            assert(kb(tr, m)[x.len() as int] == s);
            assert(kb(tr, m)[x.len() as int] == ko[x.len() as int]);
        }
    }
    assert forall|k: Seq<bool>| #[trigger] pre(x.push(s), k) implies incomparable(ko, k) && (if s { lex_lt(ko, k) } else { lex_lt(k, ko) }) by {
        if s { lemma_lex_children(x, ko, k); } else { lemma_lex_children(x, k, ko); }
    }
}

/// ... then add the other child as an OnlyL entry: on top (push) when it is the left child, at the bottom (insert 0) when it is the right one
pub proof fn lemma_fl_two_ok<P: Prefix, L, R>(tl: Seq<Node<P, L>>, tr: Seq<Node<P, R>>, xa: Seq<bool>, xb: Seq<bool>, l: usize, r: usize, s: bool, es1: Seq<Ent>)
    requires
        twf(tl), twf(tr), ent_ok(tl, tr, xa, xb, Ent::FirstL(l, r)), chd(tl, l as int, s).is_some(), chd(tl, l as int, !s).is_some(),
        kb(tr, r as int)[kb(tl, l as int).len() as int] == s,
        ents_ok(tl, tr, xa, xb, kb(tl, l as int).push(s), false, es1),
    ensures
        ents_ok(tl, tr, xa, xb, kb(tl, l as int), true, (if s { es1.push(Ent::OnlyL(chd(tl, l as int, false).unwrap())) } else { es1.insert(0, Ent::OnlyL(chd(tl, l as int, true).unwrap())) })),
{
    lemma_fl_other(tl, tr, xa, xb, l, r, s);
    reveal(ents_ok);
    let x = kb(tl, l as int);
    lemma_half_region(x, s);
    let zs = x.push(s);
    let o = chd(tl, l as int, !s).unwrap();
    let ko = kb(tl, o as int);
    let eo = Ent::OnlyL(o);
    let es = if s { es1.push(eo) } else { es1.insert(0, eo) };
    assert forall|k: int| 0 <= k < es.len() implies ent_ok(tl, tr, xa, xb, #[trigger] es[k]) && in_reg(x, true, ent_key(tl, tr, es[k])) by {
        if s {
            if k < es1.len() { assert(es[k] == es1[k]); assert(pre(zs, ent_key(tl, tr, es1[k]))); }
        } else {
            if k > 0 { assert(es[k] == es1[k - 1]); assert(pre(zs, ent_key(tl, tr, es1[k - 1]))); }
        }
    }
    assert forall|k: int, j: int| 0 <= k < j < es.len() implies
            incomparable(ent_key(tl, tr, #[trigger] es[k]), ent_key(tl, tr, #[trigger] es[j])) && lex_lt(ent_key(tl, tr, es[j]), ent_key(tl, tr, es[k])) by {
        if s {
            if j < es1.len() { assert(es[k] == es1[k] && es[j] == es1[j]); }
            else { assert(es[k] == es1[k]); assert(pre(zs, ent_key(tl, tr, es1[k]))); }
        } else {
            if k > 0 { assert(es[k] == es1[k - 1] && es[j] == es1[j - 1]); }
            else { assert(es[j] == es1[j - 1]); assert(pre(zs, ent_key(tl, tr, es1[j - 1]))); }
        }
    }
}

pub proof fn lemma_fl_two_cover<P: Prefix, L, R>(tl: Seq<Node<P, L>>, tr: Seq<Node<P, R>>, xa: Seq<bool>, xb: Seq<bool>, l: usize, r: usize, s: bool, es1: Seq<Ent>)
    requires
        twf(tl), twf(tr), ent_ok(tl, tr, xa, xb, Ent::FirstL(l, r)), chd(tl, l as int, s).is_some(), chd(tl, l as int, !s).is_some(),
        kb(tr, r as int)[kb(tl, l as int).len() as int] == s,
        ents_cover(tl, tr, xa, xb, kb(tl, l as int).push(s), false, es1),
    ensures
        ents_cover(tl, tr, xa, xb, kb(tl, l as int), true, (if s { es1.push(Ent::OnlyL(chd(tl, l as int, false).unwrap())) } else { es1.insert(0, Ent::OnlyL(chd(tl, l as int, true).unwrap())) })),
{
    lemma_fl_facts(tl, tr, xa, xb, l, r);
    reveal(ents_cover);
    let x = kb(tl, l as int);
    lemma_half_region(x, s);
    let zs = x.push(s);
    let o = chd(tl, l as int, !s).unwrap();
    let eo = Ent::OnlyL(o);
    let es = if s { es1.push(eo) } else { es1.insert(0, eo) };
    assert forall|n: int| #![trigger tlive(tl).contains(n)] vin(tl, xa, n) && spre(x, kb(tl, n)) implies exists|k: int| 0 <= k < es.len() && pre(ent_key(tl, tr, #[trigger] es[k]), kb(tl, n)) by {
        if kb(tl, n)[x.len() as int] == s {
            assert(pre(zs, kb(tl, n)));
            let k1 = choose|k: int| 0 <= k < es1.len() && pre(ent_key(tl, tr, #[trigger] es1[k]), kb(tl, n));
            if s { assert(es[k1] == es1[k1]); } else { assert(es[k1 + 1] == es1[k1]); }
        } else {
            assert(chd(tl, l as int, kb(tl, n)[x.len() as int]).is_some());
            if s { assert(es[es1.len() as int] == eo); assert(pre(ent_key(tl, tr, es[es1.len() as int]), kb(tl, n))); }
            else { assert(es[0] == eo); assert(pre(ent_key(tl, tr, es[0]), kb(tl, n))); }
        }
    }
    assert forall|m: int| #![trigger tlive(tr).contains(m)] vin(tr, xb, m) && spre(x, kb(tr, m)) implies exists|k: int| 0 <= k < es.len() && pre(ent_key(tl, tr, #[trigger] es[k]), kb(tr, m)) by {
        assert(pre(kb(tr, r as int), kb(tr, m)));
        assert(kb(tr, m)[x.len() as int] == s);
        assert(pre(zs, kb(tr, m)));
        let k1 = choose|k: int| 0 <= k < es1.len() && pre(ent_key(tl, tr, #[trigger] es1[k]), kb(tr, m));
        if s { assert(es[k1] == es1[k1]); } else { assert(es[k1 + 1] == es1[k1]); }
    }
}

pub proof fn lemma_fl_two_post<P: Prefix, L, R>(tl: Seq<Node<P, L>>, tr: Seq<Node<P, R>>, xa: Seq<bool>, xb: Seq<bool>, l: usize, r: usize, s: bool, es1: Seq<Ent>)
    requires
        twf(tl), twf(tr), ent_ok(tl, tr, xa, xb, Ent::FirstL(l, r)), chd(tl, l as int, s).is_some(), chd(tl, l as int, !s).is_some(),
        kb(tr, r as int)[kb(tl, l as int).len() as int] == s,
        ni_post(tl, tr, xa, xb, kb(tl, l as int).push(s), false, es1),
    ensures
        s ==> ni_post(tl, tr, xa, xb, kb(tl, l as int), true, es1.push(Ent::OnlyL(chd(tl, l as int, false).unwrap()))),
        !s ==> ni_post(tl, tr, xa, xb, kb(tl, l as int), true, es1.insert(0, Ent::OnlyL(chd(tl, l as int, true).unwrap()))),
{
    lemma_fl_two_ok(tl, tr, xa, xb, l, r, s, es1);
    lemma_fl_two_cover(tl, tr, xa, xb, l, r, s, es1);
}

/// all cases of next_indices_first_l at once, phrased over what the function computes:
/// the sub-call's result es1 is characterised by the postcondition of next_indices
pub open spec fn fl_cases<P: Prefix, L, R>(tl: Seq<Node<P, L>>, tr: Seq<Node<P, R>>, xa: Seq<bool>, xb: Seq<bool>, l: usize, r: usize) -> bool {
    let x = kb(tl, l as int);
    let cl = chd(tl, l as int, false); let cr = chd(tl, l as int, true);
    let s = kb(tr, r as int)[x.len() as int];
    &&& (cl.is_none() && cr.is_none() ==> ni_post(tl, tr, xa, xb, x, true, s1(Ent::OnlyR(r))))
    &&& (cl.is_none() && cr.is_some() ==> ni_pre(tl, tr, xa, xb, x, true, cr, Some(r)))
    &&& (cl.is_some() && cr.is_none() ==> ni_pre(tl, tr, xa, xb, x, true, cl, Some(r)))
    &&& (cl.is_some() && cr.is_some() ==> ni_pre(tl, tr, xa, xb, x.push(s), false, chd(tl, l as int, s), Some(r))
            && (forall|es1: Seq<Ent>| #[trigger] ni_post(tl, tr, xa, xb, x.push(s), false, es1) ==>
                    (s ==> ni_post(tl, tr, xa, xb, x, true, es1.push(Ent::OnlyL(cl.unwrap()))))
                    && (!s ==> ni_post(tl, tr, xa, xb, x, true, es1.insert(0, Ent::OnlyL(cr.unwrap()))))))
}

pub proof fn lemma_fl_cases<P: Prefix, L, R>(tl: Seq<Node<P, L>>, tr: Seq<Node<P, R>>, xa: Seq<bool>, xb: Seq<bool>, l: usize, r: usize)
    requires twf(tl), twf(tr), ent_ok(tl, tr, xa, xb, Ent::FirstL(l, r))
    ensures fl_cases(tl, tr, xa, xb, l, r)
{
    let x = kb(tl, l as int);
    let cl = chd(tl, l as int, false); let cr = chd(tl, l as int, true);
    let s = kb(tr, r as int)[x.len() as int];
    if cl.is_none() && cr.is_none() { lemma_fl_none(tl, tr, xa, xb, l, r); }
    if cl.is_none() && cr.is_some() { lemma_fl_one(tl, tr, xa, xb, l, r, true); }
    if cl.is_some() && cr.is_none() { lemma_fl_one(tl, tr, xa, xb, l, r, false); }
    if cl.is_some() && cr.is_some() {
        lemma_fl_two_pre(tl, tr, xa, xb, l, r, s);
        assert forall|es1: Seq<Ent>| #[trigger] ni_post(tl, tr, xa, xb, x.push(s), false, es1) implies
                    (s ==> ni_post(tl, tr, xa, xb, x, true, es1.push(Ent::OnlyL(cl.unwrap()))))
                    && (!s ==> ni_post(tl, tr, xa, xb, x, true, es1.insert(0, Ent::OnlyL(cr.unwrap())))) by {
            lemma_fl_two_post(tl, tr, xa, xb, l, r, s, es1);
        }
    }
}

// ---- end of the lemma_fl family ----

// ---- the traversal stack as a whole (shared by union / intersection / difference) ----

/// key k is covered by some entry of the stack
pub open spec fn kcov<P: Prefix, L, R>(tl: Seq<Node<P, L>>, tr: Seq<Node<P, R>>, es: Seq<Ent>, k: Seq<bool>) -> bool {
    exists|j: int| 0 <= j < es.len() && pre(ent_key(tl, tr, #[trigger] es[j]), k)
}

/// the whole stack: entries valid, regions pairwise incomparable, lexicographically descending towards the top
pub open spec fn ss_ok<P: Prefix, L, R>(tl: Seq<Node<P, L>>, tr: Seq<Node<P, R>>, xa: Seq<bool>, xb: Seq<bool>, es: Seq<Ent>) -> bool {
    twf(tl) && twf(tr) && ents_ok(tl, tr, xa, xb, Seq::<bool>::empty(), false, es)
}

/// popping the top entry (key x) and pushing entries cs that describe everything strictly below x
pub proof fn lemma_stack_replace<P: Prefix, L, R>(tl: Seq<Node<P, L>>, tr: Seq<Node<P, R>>, xa: Seq<bool>, xb: Seq<bool>, es: Seq<Ent>, cs: Seq<Ent>)
    requires
        ss_ok(tl, tr, xa, xb, es), es.len() > 0,
        ni_post(tl, tr, xa, xb, ent_key(tl, tr, es.last()), true, cs),
    ensures
        ss_ok(tl, tr, xa, xb, es.drop_last() + cs),
        ent_ok(tl, tr, xa, xb, es.last()),
        // what is covered afterwards: the same view nodes except those at the popped key
        forall|n: int| #![trigger tlive(tl).contains(n)] vin(tl, xa, n) ==>
            (kcov(tl, tr, es.drop_last() + cs, kb(tl, n)) == (kcov(tl, tr, es, kb(tl, n)) && !(kb(tl, n) =~= ent_key(tl, tr, es.last())))),
        forall|m: int| #![trigger tlive(tr).contains(m)] vin(tr, xb, m) ==>
            (kcov(tl, tr, es.drop_last() + cs, kb(tr, m)) == (kcov(tl, tr, es, kb(tr, m)) && !(kb(tr, m) =~= ent_key(tl, tr, es.last())))),
        // the popped key is the smallest covered key
        forall|k: Seq<bool>| #[trigger] kcov(tl, tr, es, k) && !(k =~= ent_key(tl, tr, es.last())) ==> lex_lt(ent_key(tl, tr, es.last()), k),
{
    reveal(ents_ok); reveal(ents_cover);
    let x = ent_key(tl, tr, es.last());
    let rest = es.drop_last();
    let es2 = rest + cs;
    let top = es.len() - 1;
    assert(es[top] == es.last());
    assert forall|k: int| 0 <= k < es2.len() implies ent_ok(tl, tr, xa, xb, #[trigger] es2[k]) && in_reg(Seq::<bool>::empty(), false, ent_key(tl, tr, es2[k])) by {
        if k < rest.len() { assert(es2[k] == es[k]); } else { assert(es2[k] == cs[k - rest.len()]); }
    }
    assert forall|k: int, j: int| 0 <= k < j < es2.len() implies
            incomparable(ent_key(tl, tr, #[trigger] es2[k]), ent_key(tl, tr, #[trigger] es2[j])) && lex_lt(ent_key(tl, tr, es2[j]), ent_key(tl, tr, es2[k])) by {
        if j < rest.len() {
            assert(es2[k] == es[k] && es2[j] == es[j]);
        } else if k < rest.len() {
            assert(es2[k] == es[k] && es2[j] == cs[j - rest.len()]);
            assert(incomparable(ent_key(tl, tr, es[k]), ent_key(tl, tr, es[top])) && lex_lt(ent_key(tl, tr, es[top]), ent_key(tl, tr, es[k])));
            lemma_pre_refl(ent_key(tl, tr, es[k]));
            lemma_lex_regions(x, ent_key(tl, tr, es[k]), ent_key(tl, tr, cs[j - rest.len()]), ent_key(tl, tr, es[k]));
        } else {
            assert(es2[k] == cs[k - rest.len()] && es2[j] == cs[j - rest.len()]);
        }
    }
    assert forall|n: int| #![trigger tlive(tl).contains(n)] vin(tl, xa, n) implies
            (kcov(tl, tr, es2, kb(tl, n)) == (kcov(tl, tr, es, kb(tl, n)) && !(kb(tl, n) =~= x))) by {
        lemma_cov_replace(tl, tr, es, cs, kb(tl, n));
        if kcov(tl, tr, es, kb(tl, n)) && !(kb(tl, n) =~= x) && pre(x, kb(tl, n)) {
            let k1 = choose|k: int| 0 <= k < cs.len() && pre(ent_key(tl, tr, #[trigger] cs[k]), kb(tl, n));
            assert(es2[rest.len() + k1] == cs[k1]);
        }
    }
    assert forall|m: int| #![trigger tlive(tr).contains(m)] vin(tr, xb, m) implies
            (kcov(tl, tr, es2, kb(tr, m)) == (kcov(tl, tr, es, kb(tr, m)) && !(kb(tr, m) =~= x))) by {
        lemma_cov_replace(tl, tr, es, cs, kb(tr, m));
        if kcov(tl, tr, es, kb(tr, m)) && !(kb(tr, m) =~= x) && pre(x, kb(tr, m)) {
            let k1 = choose|k: int| 0 <= k < cs.len() && pre(ent_key(tl, tr, #[trigger] cs[k]), kb(tr, m));
            assert(es2[rest.len() + k1] == cs[k1]);
        }
    }
    assert forall|k: Seq<bool>| #[trigger] kcov(tl, tr, es, k) && !(k =~= x) implies lex_lt(x, k) by {
        let j = choose|j: int| 0 <= j < es.len() && pre(ent_key(tl, tr, #[trigger] es[j]), k);
        if j < top {
            assert(incomparable(ent_key(tl, tr, es[j]), ent_key(tl, tr, es[top])) && lex_lt(ent_key(tl, tr, es[top]), ent_key(tl, tr, es[j])));
            lemma_pre_refl(x);
            lemma_lex_regions(x, ent_key(tl, tr, es[j]), x, k);
        } else {
            lemma_lex_spre(x, k);
        }
    }
}

/// coverage bookkeeping for lemma_stack_replace (pure sequence reasoning): keys not below x keep their covering entry,
/// keys covered by a new entry lie strictly below x
pub proof fn lemma_cov_replace<P: Prefix, L, R>(tl: Seq<Node<P, L>>, tr: Seq<Node<P, R>>, es: Seq<Ent>, cs: Seq<Ent>, k: Seq<bool>)
    requires
        es.len() > 0,
        forall|j: int| 0 <= j < cs.len() ==> spre(ent_key(tl, tr, es.last()), ent_key(tl, tr, #[trigger] cs[j])),
        forall|i: int| 0 <= i < es.len() - 1 ==> incomparable(ent_key(tl, tr, #[trigger] es[i]), ent_key(tl, tr, es.last())),
    ensures
        kcov(tl, tr, es.drop_last() + cs, k) ==> kcov(tl, tr, es, k) && !(k =~= ent_key(tl, tr, es.last())),
        kcov(tl, tr, es, k) && !pre(ent_key(tl, tr, es.last()), k) ==> kcov(tl, tr, es.drop_last() + cs, k),
{
    let x = ent_key(tl, tr, es.last());
    let rest = es.drop_last();
    let es2 = rest + cs;
    if kcov(tl, tr, es2, k) {
        let j = choose|j: int| 0 <= j < es2.len() && pre(ent_key(tl, tr, #[trigger] es2[j]), k);
        if j < rest.len() {
            assert(es2[j] == es[j]);
            assert(pre(ent_key(tl, tr, es[j]), k));
            if k =~= x { assert(incomparable(ent_key(tl, tr, es[j]), x)); }
        } else {
            assert(es2[j] == cs[j - rest.len()]);
            lemma_pre_trans(x, ent_key(tl, tr, cs[j - rest.len()]), k);
            assert(pre(ent_key(tl, tr, es[es.len() - 1]), k));
        }
    }
    if kcov(tl, tr, es, k) && !pre(x, k) {
        let j = choose|j: int| 0 <= j < es.len() && pre(ent_key(tl, tr, #[trigger] es[j]), k);
        assert(j < es.len() - 1);
        assert(es2[j] == es[j]);
    }
}

/// the two halves below x: entries for the 1-half first (below), entries for the 0-half on top
pub proof fn lemma_ni_concat<P: Prefix, L, R>(tl: Seq<Node<P, L>>, tr: Seq<Node<P, R>>, xa: Seq<bool>, xb: Seq<bool>, x: Seq<bool>, csr: Seq<Ent>, csl: Seq<Ent>)
    requires ni_post(tl, tr, xa, xb, x.push(true), false, csr), ni_post(tl, tr, xa, xb, x.push(false), false, csl)
    ensures ni_post(tl, tr, xa, xb, x, true, csr + csl)
{
    reveal(ents_ok); reveal(ents_cover);
    lemma_half_region(x, true);
    lemma_half_region(x, false);
    let cs = csr + csl;
    assert forall|k: int| 0 <= k < cs.len() implies ent_ok(tl, tr, xa, xb, #[trigger] cs[k]) && in_reg(x, true, ent_key(tl, tr, cs[k])) by {
        if k < csr.len() { assert(cs[k] == csr[k]); assert(pre(x.push(true), ent_key(tl, tr, csr[k]))); }
        else { assert(cs[k] == csl[k - csr.len()]); assert(pre(x.push(false), ent_key(tl, tr, csl[k - csr.len()]))); }
    }
    assert forall|k: int, j: int| 0 <= k < j < cs.len() implies
            incomparable(ent_key(tl, tr, #[trigger] cs[k]), ent_key(tl, tr, #[trigger] cs[j])) && lex_lt(ent_key(tl, tr, cs[j]), ent_key(tl, tr, cs[k])) by {
        if j < csr.len() { assert(cs[k] == csr[k] && cs[j] == csr[j]); }
        else if k >= csr.len() { assert(cs[k] == csl[k - csr.len()] && cs[j] == csl[j - csr.len()]); }
        else {
            assert(cs[k] == csr[k] && cs[j] == csl[j - csr.len()]);
            assert(pre(x.push(true), ent_key(tl, tr, csr[k])) && pre(x.push(false), ent_key(tl, tr, csl[j - csr.len()])));
            lemma_lex_children(x, ent_key(tl, tr, csl[j - csr.len()]), ent_key(tl, tr, csr[k]));
        }
    }
    assert forall|n: int| #![trigger tlive(tl).contains(n)] vin(tl, xa, n) && spre(x, kb(tl, n)) implies exists|k: int| 0 <= k < cs.len() && pre(ent_key(tl, tr, #[trigger] cs[k]), kb(tl, n)) by {
        if kb(tl, n)[x.len() as int] {
            assert(pre(x.push(true), kb(tl, n)));
            let k1 = choose|k: int| 0 <= k < csr.len() && pre(ent_key(tl, tr, #[trigger] csr[k]), kb(tl, n));
            assert(cs[k1] == csr[k1]);
        } else {
            assert(pre(x.push(false), kb(tl, n)));
            let k1 = choose|k: int| 0 <= k < csl.len() && pre(ent_key(tl, tr, #[trigger] csl[k]), kb(tl, n));
            assert(cs[csr.len() + k1] == csl[k1]);
        }
    }
    assert forall|m: int| #![trigger tlive(tr).contains(m)] vin(tr, xb, m) && spre(x, kb(tr, m)) implies exists|k: int| 0 <= k < cs.len() && pre(ent_key(tl, tr, #[trigger] cs[k]), kb(tr, m)) by {
        if kb(tr, m)[x.len() as int] {
            assert(pre(x.push(true), kb(tr, m)));
            let k1 = choose|k: int| 0 <= k < csr.len() && pre(ent_key(tl, tr, #[trigger] csr[k]), kb(tr, m));
            assert(cs[k1] == csr[k1]);
        } else {
            assert(pre(x.push(false), kb(tr, m)));
            let k1 = choose|k: int| 0 <= k < csl.len() && pre(ent_key(tl, tr, #[trigger] csl[k]), kb(tr, m));
            assert(cs[csr.len() + k1] == csl[k1]);
        }
    }
}

/// children of a Both(l, r) entry: the pairs (l.right, r.right) and (l.left, r.left) satisfy the precondition of next_indices
pub proof fn lemma_both_children<P: Prefix, L, R>(tl: Seq<Node<P, L>>, tr: Seq<Node<P, R>>, xa: Seq<bool>, xb: Seq<bool>, l: usize, r: usize, s: bool)
    requires twf(tl), twf(tr), ent_ok(tl, tr, xa, xb, Ent::Both(l, r))
    ensures
        ni_pre(tl, tr, xa, xb, kb(tl, l as int).push(s), false, chd(tl, l as int, s), chd(tr, r as int, s)),
        l < tl.len(), r < tr.len(),
        chd(tl, l as int, s).is_some() ==> tlive(tl).contains(chd(tl, l as int, s).unwrap() as int),
        chd(tr, r as int, s).is_some() ==> tlive(tr).contains(chd(tr, r as int, s).unwrap() as int),
{
    let x = kb(tl, l as int);
    lemma_twf_live(tl); lemma_twf_live(tr);
    lemma_live_bound(tl, l as int); lemma_live_bound(tr, r as int);
    lemma_half_region(x, s);
    lemma_side_child(tl, xa, l as int, s);
    assert(kb(tr, r as int) == x);
    lemma_side_child(tr, xb, r as int, s);
}

/// the view nodes in the half region below node i on side s are exactly those at or below its s-child
pub proof fn lemma_side_child<P: Prefix, T>(t: Seq<Node<P, T>>, x: Seq<bool>, i: int, s: bool)
    requires twf(t), vin(t, x, i)
    ensures
        side_ok(t, x, kb(t, i).push(s), false, chd(t, i, s)),
        chd(t, i, s).is_some() ==> tlive(t).contains(chd(t, i, s).unwrap() as int),
{
    let live = tlive(t);
    let ki = kb(t, i);
    lemma_twf_live(t);
    lemma_half_region(ki, s);
    lemma_pre_refl(ki);
    lemma_step(t, live, i, ki);
    if chd(t, i, s).is_some() {
        let c = chd(t, i, s).unwrap() as int;
        lemma_pre_trans(x, ki, kb(t, c));
        assert forall|n: int| #![trigger tlive(t).contains(n)] vin(t, x, n) && pre(ki.push(s), kb(t, n)) implies pre(kb(t, c), kb(t, n)) by {
            lemma_desc(t, live, i, n);
        }
    } else {
        assert forall|n: int| #![trigger tlive(t).contains(n)] vin(t, x, n) implies !pre(ki.push(s), kb(t, n)) by {
            if pre(ki.push(s), kb(t, n)) { lemma_desc(t, live, i, n); }
        }
    }
}

// ---- annotated stack: longest-prefix matches carried along (C08), remaining entries, step relation, termination measure ----

/// the l-side / r-side node sitting exactly at the entry's key (None: that view has no node there)
pub open spec fn ent_l(e: Ent) -> Option<usize> {
    match e { Ent::Both(l, _) => Some(l), Ent::FirstL(l, _) => Some(l), Ent::OnlyL(l) => Some(l), _ => None }
}
pub open spec fn ent_r(e: Ent) -> Option<usize> {
    match e { Ent::Both(_, r) => Some(r), Ent::FirstR(_, r) => Some(r), Ent::OnlyR(r) => Some(r), _ => None }
}

/// own entry of node i if it stores a value, else the inherited match (what the `get_lpm_*` closures compute)
pub open spec fn lpm_or<'a, P: Prefix, T>(t: Seq<Node<P, T>>, i: usize, inh: Option<(&'a P, &'a T)>) -> Option<(&'a P, &'a T)> {
    if t[i as int].value.is_some() { Some((&t[i as int].prefix, &t[i as int].value.unwrap())) } else { inh }
}
pub open spec fn ann<'a, P: Prefix, T>(t: Seq<Node<P, T>>, c: Option<usize>, inh: Option<(&'a P, &'a T)>) -> Option<(&'a P, &'a T)> {
    match c { Some(i) => lpm_or(t, i, inh), None => inh }
}

/// node n holds the longest prefix stored in view (t, x) that covers key k
pub open spec fn vlpm_at<P: Prefix, T>(t: Seq<Node<P, T>>, x: Seq<bool>, k: Seq<bool>, n: int) -> bool {
    vin(t, x, n) && t[n].value.is_some() && pre(kb(t, n), k)
        && (forall|m: int| #![trigger tlive(t).contains(m)] vin(t, x, m) && t[m].value.is_some() && pre(kb(t, m), k) ==> kb(t, m).len() <= kb(t, n).len())
}

/// [C08] res is the longest-prefix match of key k among the entries stored in view (t, x): None exactly when nothing stored covers k
pub open spec fn vlpm<'a, P: Prefix, T>(t: Seq<Node<P, T>>, x: Seq<bool>, k: Seq<bool>, res: Option<(&'a P, &'a T)>) -> bool {
    match res {
        Some(e) => exists|n: int| #![trigger tlive(t).contains(n)] vlpm_at(t, x, k, n) && *e.0 == t[n].prefix && *e.1 == t[n].value.unwrap(),
        None => forall|n: int| #![trigger tlive(t).contains(n)] vin(t, x, n) && pre(kb(t, n), k) ==> t[n].value.is_none(),
    }
}

/// descending from key kx to key kc: the only view node that covers kc but not kx is c
pub proof fn lemma_lpm_down<'a, P: Prefix, T>(t: Seq<Node<P, T>>, x: Seq<bool>, kx: Seq<bool>, kc: Seq<bool>, inh: Option<(&'a P, &'a T)>, c: Option<usize>)
    requires
        vlpm(t, x, kx, inh), pre(kx, kc),
        c.is_some() ==> vin(t, x, c.unwrap() as int) && kb(t, c.unwrap() as int) =~= kc,
        forall|n: int| #![trigger tlive(t).contains(n)] vin(t, x, n) && pre(kb(t, n), kc) && !pre(kb(t, n), kx) ==> c.is_some() && c.unwrap() as int == n,
    ensures vlpm(t, x, kc, ann(t, c, inh))
{
    if c.is_some() && t[c.unwrap() as int].value.is_some() {
        let i = c.unwrap() as int;
        lemma_pre_refl(kc);
        assert(vlpm_at(t, x, kc, i));
    } else {
        match inh {
            Some(e) => {
                let n0 = choose|n: int| #![trigger tlive(t).contains(n)] vlpm_at(t, x, kx, n) && *e.0 == t[n].prefix && *e.1 == t[n].value.unwrap();
                lemma_pre_trans(kb(t, n0), kx, kc);
                assert(vlpm_at(t, x, kc, n0));
            },
            None => {},
        }
    }
}

/// at the start of a traversal nothing is inherited: no view node covers kc except c
pub proof fn lemma_lpm_init<P: Prefix, T>(t: Seq<Node<P, T>>, x: Seq<bool>, kc: Seq<bool>, c: Option<usize>)
    requires
        c.is_some() ==> vin(t, x, c.unwrap() as int) && kb(t, c.unwrap() as int) =~= kc,
        forall|n: int| #![trigger tlive(t).contains(n)] vin(t, x, n) && pre(kb(t, n), kc) ==> c.is_some() && c.unwrap() as int == n,
    ensures vlpm(t, x, kc, ann(t, c, None))
{
    if c.is_some() && t[c.unwrap() as int].value.is_some() {
        let i = c.unwrap() as int;
        lemma_pre_refl(kc);
        assert(vlpm_at(t, x, kc, i));
    }
}

/// the view nodes found at the key of an entry
pub proof fn lemma_ent_at<P: Prefix, L, R>(tl: Seq<Node<P, L>>, tr: Seq<Node<P, R>>, xa: Seq<bool>, xb: Seq<bool>, e: Ent)
    requires twf(tl), twf(tr), ent_ok(tl, tr, xa, xb, e)
    ensures
        ent_l(e).is_some() ==> vin(tl, xa, ent_l(e).unwrap() as int) && kb(tl, ent_l(e).unwrap() as int) =~= ent_key(tl, tr, e) && ent_l(e).unwrap() < tl.len(),
        ent_r(e).is_some() ==> vin(tr, xb, ent_r(e).unwrap() as int) && kb(tr, ent_r(e).unwrap() as int) =~= ent_key(tl, tr, e) && ent_r(e).unwrap() < tr.len(),
        ent_l(e).is_some() || ent_r(e).is_some(),
        forall|n: int| #![trigger tlive(tl).contains(n)] vin(tl, xa, n) && kb(tl, n) =~= ent_key(tl, tr, e) ==> ent_l(e).is_some() && ent_l(e).unwrap() as int == n,
        forall|m: int| #![trigger tlive(tr).contains(m)] vin(tr, xb, m) && kb(tr, m) =~= ent_key(tl, tr, e) ==> ent_r(e).is_some() && ent_r(e).unwrap() as int == m,
{
    let k = ent_key(tl, tr, e);
    lemma_twf_live(tl); lemma_twf_live(tr);
    lemma_pre_refl(k);
    if ent_l(e).is_some() { lemma_live_bound(tl, ent_l(e).unwrap() as int); }
    if ent_r(e).is_some() { lemma_live_bound(tr, ent_r(e).unwrap() as int); }
    assert forall|n: int| #![trigger tlive(tl).contains(n)] vin(tl, xa, n) && kb(tl, n) =~= k implies ent_l(e).is_some() && ent_l(e).unwrap() as int == n by {
        match e {
            Ent::Both(l, _) => { lemma_uniq(tl, tlive(tl), l as int, n); },
            Ent::FirstL(l, _) => { lemma_uniq(tl, tlive(tl), l as int, n); },
            Ent::OnlyL(l) => { lemma_uniq(tl, tlive(tl), l as int, n); },
            Ent::FirstR(l, r) => { assert(pre(kb(tl, l as int), kb(tl, n))); },
            Ent::OnlyR(r) => {},
        }
    }
    assert forall|m: int| #![trigger tlive(tr).contains(m)] vin(tr, xb, m) && kb(tr, m) =~= k implies ent_r(e).is_some() && ent_r(e).unwrap() as int == m by {
        match e {
            Ent::Both(_, r) => { lemma_uniq(tr, tlive(tr), r as int, m); },
            Ent::FirstR(_, r) => { lemma_uniq(tr, tlive(tr), r as int, m); },
            Ent::OnlyR(r) => { lemma_uniq(tr, tlive(tr), r as int, m); },
            Ent::FirstL(l, r) => { assert(pre(kb(tr, r as int), kb(tr, m))); },
            Ent::OnlyL(l) => {},
        }
    }
}

/// inside the region described by cs, the only view nodes covering the key of cs[j] are the nodes of cs[j] itself
pub proof fn lemma_between<P: Prefix, L, R>(tl: Seq<Node<P, L>>, tr: Seq<Node<P, R>>, xa: Seq<bool>, xb: Seq<bool>, z: Seq<bool>, st: bool, cs: Seq<Ent>, j: int)
    requires twf(tl), twf(tr), ni_post(tl, tr, xa, xb, z, st, cs), 0 <= j < cs.len()
    ensures
        ent_ok(tl, tr, xa, xb, cs[j]), in_reg(z, st, ent_key(tl, tr, cs[j])),
        forall|n: int| #![trigger tlive(tl).contains(n)] vin(tl, xa, n) && pre(kb(tl, n), ent_key(tl, tr, cs[j])) && in_reg(z, st, kb(tl, n)) ==> ent_l(cs[j]).is_some() && ent_l(cs[j]).unwrap() as int == n,
        forall|m: int| #![trigger tlive(tr).contains(m)] vin(tr, xb, m) && pre(kb(tr, m), ent_key(tl, tr, cs[j])) && in_reg(z, st, kb(tr, m)) ==> ent_r(cs[j]).is_some() && ent_r(cs[j]).unwrap() as int == m,
{
    reveal(ents_ok); reveal(ents_cover);
    let kc = ent_key(tl, tr, cs[j]);
    lemma_ent_at(tl, tr, xa, xb, cs[j]);
    assert forall|n: int| #![trigger tlive(tl).contains(n)] vin(tl, xa, n) && pre(kb(tl, n), kc) && in_reg(z, st, kb(tl, n)) implies ent_l(cs[j]).is_some() && ent_l(cs[j]).unwrap() as int == n by {
        let k1 = choose|k: int| 0 <= k < cs.len() && pre(ent_key(tl, tr, #[trigger] cs[k]), kb(tl, n));
        lemma_pre_trans(ent_key(tl, tr, cs[k1]), kb(tl, n), kc);
        if k1 < j { assert(incomparable(ent_key(tl, tr, cs[k1]), ent_key(tl, tr, cs[j]))); }
        if j < k1 { assert(incomparable(ent_key(tl, tr, cs[j]), ent_key(tl, tr, cs[k1]))); }
        lemma_pre_antisym(kb(tl, n), kc);
    }
    assert forall|m: int| #![trigger tlive(tr).contains(m)] vin(tr, xb, m) && pre(kb(tr, m), kc) && in_reg(z, st, kb(tr, m)) implies ent_r(cs[j]).is_some() && ent_r(cs[j]).unwrap() as int == m by {
        let k1 = choose|k: int| 0 <= k < cs.len() && pre(ent_key(tl, tr, #[trigger] cs[k]), kb(tr, m));
        lemma_pre_trans(ent_key(tl, tr, cs[k1]), kb(tr, m), kc);
        if k1 < j { assert(incomparable(ent_key(tl, tr, cs[k1]), ent_key(tl, tr, cs[j]))); }
        if j < k1 { assert(incomparable(ent_key(tl, tr, cs[j]), ent_key(tl, tr, cs[k1]))); }
        lemma_pre_antisym(kb(tr, m), kc);
    }
}

/// [C08] annotations of the entries pushed below a popped entry with key x and annotations (ll, lr)
pub proof fn lemma_ann_child<'a, P: Prefix, L, R>(tl: Seq<Node<P, L>>, tr: Seq<Node<P, R>>, xa: Seq<bool>, xb: Seq<bool>, x: Seq<bool>, cs: Seq<Ent>, j: int,
        ll: Option<(&'a P, &'a L)>, lr: Option<(&'a P, &'a R)>)
    requires twf(tl), twf(tr), ni_post(tl, tr, xa, xb, x, true, cs), 0 <= j < cs.len(), vlpm(tl, xa, x, ll), vlpm(tr, xb, x, lr)
    ensures
        vlpm(tl, xa, ent_key(tl, tr, cs[j]), ann(tl, ent_l(cs[j]), ll)),
        vlpm(tr, xb, ent_key(tl, tr, cs[j]), ann(tr, ent_r(cs[j]), lr)),
{
    let kc = ent_key(tl, tr, cs[j]);
    lemma_between(tl, tr, xa, xb, x, true, cs, j);
    lemma_ent_at(tl, tr, xa, xb, cs[j]);
    assert forall|n: int| #![trigger tlive(tl).contains(n)] vin(tl, xa, n) && pre(kb(tl, n), kc) && !pre(kb(tl, n), x) implies spre(x, kb(tl, n)) by {
        lemma_pre_comparable(kb(tl, n), x, kc);
    }
    assert forall|m: int| #![trigger tlive(tr).contains(m)] vin(tr, xb, m) && pre(kb(tr, m), kc) && !pre(kb(tr, m), x) implies spre(x, kb(tr, m)) by {
        lemma_pre_comparable(kb(tr, m), x, kc);
    }
    lemma_lpm_down(tl, xa, x, kc, ll, ent_l(cs[j]));
    lemma_lpm_down(tr, xb, x, kc, lr, ent_r(cs[j]));
}

/// [C08] annotations of the initial entries of a traversal
pub proof fn lemma_ann_init<P: Prefix, L, R>(tl: Seq<Node<P, L>>, tr: Seq<Node<P, R>>, xa: Seq<bool>, xb: Seq<bool>, cs: Seq<Ent>, j: int)
    requires twf(tl), twf(tr), ni_post(tl, tr, xa, xb, Seq::<bool>::empty(), false, cs), 0 <= j < cs.len()
    ensures
        vlpm(tl, xa, ent_key(tl, tr, cs[j]), ann::<P, L>(tl, ent_l(cs[j]), None)),
        vlpm(tr, xb, ent_key(tl, tr, cs[j]), ann::<P, R>(tr, ent_r(cs[j]), None)),
{
    let kc = ent_key(tl, tr, cs[j]);
    lemma_between(tl, tr, xa, xb, Seq::<bool>::empty(), false, cs, j);
    lemma_ent_at(tl, tr, xa, xb, cs[j]);
    lemma_lpm_init(tl, xa, kc, ent_l(cs[j]));
    lemma_lpm_init(tr, xb, kc, ent_r(cs[j]));
}

/// stored entries of the two views that the stack still has to deliver
pub open spec fn rem_l<P: Prefix, L, R>(tl: Seq<Node<P, L>>, tr: Seq<Node<P, R>>, xa: Seq<bool>, es: Seq<Ent>, n: int) -> bool {
    vin(tl, xa, n) && tl[n].value.is_some() && kcov(tl, tr, es, kb(tl, n))
}
pub open spec fn rem_r<P: Prefix, L, R>(tl: Seq<Node<P, L>>, tr: Seq<Node<P, R>>, xb: Seq<bool>, es: Seq<Ent>, m: int) -> bool {
    vin(tr, xb, m) && tr[m].value.is_some() && kcov(tl, tr, es, kb(tr, m))
}

/// one delivered key x: it precedes every other remaining entry and exactly the entries at x leave the remaining set
pub open spec fn yields_key<P: Prefix, L, R>(tl: Seq<Node<P, L>>, tr: Seq<Node<P, R>>, xa: Seq<bool>, xb: Seq<bool>, es0: Seq<Ent>, es1: Seq<Ent>, x: Seq<bool>) -> bool {
    &&& (forall|n: int| #![trigger tlive(tl).contains(n)] rem_l(tl, tr, xa, es0, n) && !(kb(tl, n) =~= x) ==> lex_lt(x, kb(tl, n)))
    &&& (forall|m: int| #![trigger tlive(tr).contains(m)] rem_r(tl, tr, xb, es0, m) && !(kb(tr, m) =~= x) ==> lex_lt(x, kb(tr, m)))
    &&& (forall|n: int| #![trigger tlive(tl).contains(n)] rem_l(tl, tr, xa, es1, n) == (rem_l(tl, tr, xa, es0, n) && !(kb(tl, n) =~= x)))
    &&& (forall|m: int| #![trigger tlive(tr).contains(m)] rem_r(tl, tr, xb, es1, m) == (rem_r(tl, tr, xb, es0, m) && !(kb(tr, m) =~= x)))
}

/// key x belongs to a remaining entry of at least one view
pub open spec fn key_rem<P: Prefix, L, R>(tl: Seq<Node<P, L>>, tr: Seq<Node<P, R>>, xa: Seq<bool>, xb: Seq<bool>, es: Seq<Ent>, x: Seq<bool>) -> bool {
    (exists|n: int| #![trigger tlive(tl).contains(n)] rem_l(tl, tr, xa, es, n) && kb(tl, n) =~= x)
    || (exists|m: int| #![trigger tlive(tr).contains(m)] rem_r(tl, tr, xb, es, m) && kb(tr, m) =~= x)
}

/// the remaining sets of two stacks agree (only value-less positions were skipped in between)
pub open spec fn same_rem<P: Prefix, L, R>(tl: Seq<Node<P, L>>, tr: Seq<Node<P, R>>, xa: Seq<bool>, xb: Seq<bool>, es0: Seq<Ent>, es1: Seq<Ent>) -> bool {
    &&& (forall|n: int| #![trigger tlive(tl).contains(n)] rem_l(tl, tr, xa, es1, n) == rem_l(tl, tr, xa, es0, n))
    &&& (forall|m: int| #![trigger tlive(tr).contains(m)] rem_r(tl, tr, xb, es1, m) == rem_r(tl, tr, xb, es0, m))
}

pub open spec fn no_rem<P: Prefix, L, R>(tl: Seq<Node<P, L>>, tr: Seq<Node<P, R>>, xa: Seq<bool>, xb: Seq<bool>, es: Seq<Ent>) -> bool {
    &&& (forall|n: int| #![trigger tlive(tl).contains(n)] !rem_l(tl, tr, xa, es, n))
    &&& (forall|m: int| #![trigger tlive(tr).contains(m)] !rem_r(tl, tr, xb, es, m))
}

// termination measure: number of view nodes still covered by the stack
pub open spec fn icnt(f: spec_fn(int) -> bool, n: int) -> int
    decreases n
{
    if n <= 0 { 0 } else { icnt(f, n - 1) + (if f(n - 1) { 1int } else { 0int }) }
}

pub proof fn lemma_icnt(f: spec_fn(int) -> bool, g: spec_fn(int) -> bool, n: int, k: int)
    requires forall|i: int| 0 <= i < n && #[trigger] g(i) ==> f(i)
    ensures 0 <= icnt(g, n) <= icnt(f, n), (0 <= k < n && f(k) && !g(k)) ==> icnt(g, n) < icnt(f, n)
    decreases n
{
    if n > 0 { lemma_icnt(f, g, n - 1, k); }
}

pub open spec fn cov_l<P: Prefix, L, R>(tl: Seq<Node<P, L>>, tr: Seq<Node<P, R>>, xa: Seq<bool>, es: Seq<Ent>) -> spec_fn(int) -> bool {
    |n: int| vin(tl, xa, n) && kcov(tl, tr, es, kb(tl, n))
}
pub open spec fn cov_r<P: Prefix, L, R>(tl: Seq<Node<P, L>>, tr: Seq<Node<P, R>>, xb: Seq<bool>, es: Seq<Ent>) -> spec_fn(int) -> bool {
    |m: int| vin(tr, xb, m) && kcov(tl, tr, es, kb(tr, m))
}
pub open spec fn ucnt<P: Prefix, L, R>(tl: Seq<Node<P, L>>, tr: Seq<Node<P, R>>, xa: Seq<bool>, xb: Seq<bool>, es: Seq<Ent>) -> int {
    icnt(cov_l(tl, tr, xa, es), tl.len() as int) + icnt(cov_r(tl, tr, xb, es), tr.len() as int)
}

/// [C05/C06/C07] one step of a traversal: the top entry (key x) is popped, entries cs for everything strictly below x are pushed
pub proof fn lemma_stack_step<P: Prefix, L, R>(tl: Seq<Node<P, L>>, tr: Seq<Node<P, R>>, xa: Seq<bool>, xb: Seq<bool>, es: Seq<Ent>, cs: Seq<Ent>)
    requires
        ss_ok(tl, tr, xa, xb, es), es.len() > 0,
        ni_post(tl, tr, xa, xb, ent_key(tl, tr, es.last()), true, cs),
    ensures
        ss_ok(tl, tr, xa, xb, es.drop_last() + cs),
        yields_key(tl, tr, xa, xb, es, es.drop_last() + cs, ent_key(tl, tr, es.last())),
        kcov(tl, tr, es, ent_key(tl, tr, es.last())),
        0 <= ucnt(tl, tr, xa, xb, es.drop_last() + cs) < ucnt(tl, tr, xa, xb, es),
{
    let e = es.last();
    let x = ent_key(tl, tr, e);
    let es2 = es.drop_last() + cs;
    lemma_stack_replace(tl, tr, xa, xb, es, cs);
    lemma_ent_at(tl, tr, xa, xb, e);
    lemma_pre_refl(x);
    assert(es[es.len() - 1] == e);
    assert(kcov(tl, tr, es, x));
    let fl = cov_l(tl, tr, xa, es); let gl = cov_l(tl, tr, xa, es2);
    let fr = cov_r(tl, tr, xb, es); let gr = cov_r(tl, tr, xb, es2);
    assert forall|i: int| 0 <= i < tl.len() && #[trigger] gl(i) implies fl(i) by { assert(tlive(tl).contains(i)); }
    assert forall|i: int| 0 <= i < tr.len() && #[trigger] gr(i) implies fr(i) by { assert(tlive(tr).contains(i)); }
    let wl = if ent_l(e).is_some() { ent_l(e).unwrap() as int } else { -1 };
    let wr = if ent_r(e).is_some() { ent_r(e).unwrap() as int } else { -1 };
    if ent_l(e).is_some() { assert(tlive(tl).contains(wl)); assert(fl(wl) && !gl(wl)); }
    if ent_r(e).is_some() { assert(tlive(tr).contains(wr)); assert(fr(wr) && !gr(wr)); }
    lemma_icnt(fl, gl, tl.len() as int, wl);
    lemma_icnt(fr, gr, tr.len() as int, wr);
}

/// children of an OnlyL(l) entry: the half regions below l hold the corresponding child of l and nothing of the other view
pub proof fn lemma_only_children_l<P: Prefix, L, R>(tl: Seq<Node<P, L>>, tr: Seq<Node<P, R>>, xa: Seq<bool>, xb: Seq<bool>, l: usize, s: bool)
    requires twf(tl), twf(tr), ent_ok(tl, tr, xa, xb, Ent::OnlyL(l))
    ensures
        ni_pre::<P, L, R>(tl, tr, xa, xb, kb(tl, l as int).push(s), false, chd(tl, l as int, s), None),
        l < tl.len(),
        chd(tl, l as int, s).is_some() ==> tlive(tl).contains(chd(tl, l as int, s).unwrap() as int) && chd(tl, l as int, s).unwrap() < tl.len(),
{
    let x = kb(tl, l as int);
    lemma_live_bound(tl, l as int);
    lemma_half_region(x, s);
    lemma_side_child(tl, xa, l as int, s);
    if chd(tl, l as int, s).is_some() { lemma_live_bound(tl, chd(tl, l as int, s).unwrap() as int); }
}

pub proof fn lemma_only_children_r<P: Prefix, L, R>(tl: Seq<Node<P, L>>, tr: Seq<Node<P, R>>, xa: Seq<bool>, xb: Seq<bool>, r: usize, s: bool)
    requires twf(tl), twf(tr), ent_ok(tl, tr, xa, xb, Ent::OnlyR(r))
    ensures
        ni_pre::<P, L, R>(tl, tr, xa, xb, kb(tr, r as int).push(s), false, None, chd(tr, r as int, s)),
        r < tr.len(),
        chd(tr, r as int, s).is_some() ==> tlive(tr).contains(chd(tr, r as int, s).unwrap() as int) && chd(tr, r as int, s).unwrap() < tr.len(),
{
    let x = kb(tr, r as int);
    lemma_live_bound(tr, r as int);
    lemma_half_region(x, s);
    lemma_side_child(tr, xb, r as int, s);
    if chd(tr, r as int, s).is_some() { lemma_live_bound(tr, chd(tr, r as int, s).unwrap() as int); }
}

/// the two optional one-sided children of an OnlyL / OnlyR entry, pushed right first
pub proof fn lemma_only_post_l<P: Prefix, L, R>(tl: Seq<Node<P, L>>, tr: Seq<Node<P, R>>, xa: Seq<bool>, xb: Seq<bool>, l: usize)
    requires twf(tl), twf(tr), ent_ok(tl, tr, xa, xb, Ent::OnlyL(l))
    ensures ni_post(tl, tr, xa, xb, kb(tl, l as int), true,
        (match chd(tl, l as int, true) { Some(c) => s1(Ent::OnlyL(c)), None => Seq::<Ent>::empty() })
        + (match chd(tl, l as int, false) { Some(c) => s1(Ent::OnlyL(c)), None => Seq::<Ent>::empty() }))
{
    lemma_only_children_l(tl, tr, xa, xb, l, true);
    lemma_only_children_l(tl, tr, xa, xb, l, false);
    lemma_ni_cases::<P, L, R>(tl, tr, chd(tl, l as int, true), None);
    lemma_ni_cases::<P, L, R>(tl, tr, chd(tl, l as int, false), None);
    let x = kb(tl, l as int);
    assert(ni_cases::<P, L, R>(tl, tr, xa, xb, x.push(true), false, chd(tl, l as int, true), None));
    assert(ni_cases::<P, L, R>(tl, tr, xa, xb, x.push(false), false, chd(tl, l as int, false), None));
    lemma_ni_concat(tl, tr, xa, xb, x,
        (match chd(tl, l as int, true) { Some(c) => s1(Ent::OnlyL(c)), None => Seq::<Ent>::empty() }),
        (match chd(tl, l as int, false) { Some(c) => s1(Ent::OnlyL(c)), None => Seq::<Ent>::empty() }));
}

pub proof fn lemma_only_post_r<P: Prefix, L, R>(tl: Seq<Node<P, L>>, tr: Seq<Node<P, R>>, xa: Seq<bool>, xb: Seq<bool>, r: usize)
    requires twf(tl), twf(tr), ent_ok(tl, tr, xa, xb, Ent::OnlyR(r))
    ensures ni_post(tl, tr, xa, xb, kb(tr, r as int), true,
        (match chd(tr, r as int, true) { Some(c) => s1(Ent::OnlyR(c)), None => Seq::<Ent>::empty() })
        + (match chd(tr, r as int, false) { Some(c) => s1(Ent::OnlyR(c)), None => Seq::<Ent>::empty() }))
{
    lemma_only_children_r(tl, tr, xa, xb, r, true);
    lemma_only_children_r(tl, tr, xa, xb, r, false);
    lemma_ni_cases::<P, L, R>(tl, tr, None, chd(tr, r as int, true));
    lemma_ni_cases::<P, L, R>(tl, tr, None, chd(tr, r as int, false));
    let x = kb(tr, r as int);
    assert(ni_cases::<P, L, R>(tl, tr, xa, xb, x.push(true), false, None, chd(tr, r as int, true)));
    assert(ni_cases::<P, L, R>(tl, tr, xa, xb, x.push(false), false, None, chd(tr, r as int, false)));
    lemma_ni_concat(tl, tr, xa, xb, x,
        (match chd(tr, r as int, true) { Some(c) => s1(Ent::OnlyR(c)), None => Seq::<Ent>::empty() }),
        (match chd(tr, r as int, false) { Some(c) => s1(Ent::OnlyR(c)), None => Seq::<Ent>::empty() }));
}

// ---- intersection (C06): entries may be pruned; only keys that have a node in BOTH views need to stay covered ----

/// every key that has a node in both views inside region z is covered by one of the entries
#[verifier::opaque]
pub open spec fn ents_cover2<P: Prefix, L, R>(tl: Seq<Node<P, L>>, tr: Seq<Node<P, R>>, xa: Seq<bool>, xb: Seq<bool>, z: Seq<bool>, st: bool, es: Seq<Ent>) -> bool {
    forall|n: int, m: int| #![trigger tlive(tl).contains(n), tlive(tr).contains(m)]
        vin(tl, xa, n) && vin(tr, xb, m) && kb(tl, n) =~= kb(tr, m) && in_reg(z, st, kb(tl, n)) ==> exists|k: int| 0 <= k < es.len() && pre(ent_key(tl, tr, #[trigger] es[k]), kb(tl, n))
}

pub open spec fn ix_post<P: Prefix, L, R>(tl: Seq<Node<P, L>>, tr: Seq<Node<P, R>>, xa: Seq<bool>, xb: Seq<bool>, z: Seq<bool>, st: bool, es: Seq<Ent>) -> bool {
    ents_ok(tl, tr, xa, xb, z, st, es) && ents_cover2(tl, tr, xa, xb, z, st, es)
}

pub proof fn lemma_ni_ix<P: Prefix, L, R>(tl: Seq<Node<P, L>>, tr: Seq<Node<P, R>>, xa: Seq<bool>, xb: Seq<bool>, z: Seq<bool>, st: bool, es: Seq<Ent>)
    requires ni_post(tl, tr, xa, xb, z, st, es)
    ensures ix_post(tl, tr, xa, xb, z, st, es)
{
    reveal(ents_cover); reveal(ents_cover2);
}

/// pruning: when the two sides of a region cannot share a key, nothing needs to be pushed
pub proof fn lemma_ix_prune<P: Prefix, L, R>(tl: Seq<Node<P, L>>, tr: Seq<Node<P, R>>, xa: Seq<bool>, xb: Seq<bool>, z: Seq<bool>, st: bool, a: Option<usize>, b: Option<usize>)
    requires
        ni_pre(tl, tr, xa, xb, z, st, a, b),
        a.is_none() || b.is_none() || incomparable(kb(tl, a.unwrap() as int), kb(tr, b.unwrap() as int)),
    ensures ix_post(tl, tr, xa, xb, z, st, Seq::<Ent>::empty())
{
    reveal(ents_ok); reveal(ents_cover2);
    assert forall|n: int, m: int| #![trigger tlive(tl).contains(n), tlive(tr).contains(m)]
        vin(tl, xa, n) && vin(tr, xb, m) && kb(tl, n) =~= kb(tr, m) && in_reg(z, st, kb(tl, n)) implies false by {
        if a.is_some() && b.is_some() {
            lemma_pre_comparable(kb(tl, a.unwrap() as int), kb(tr, b.unwrap() as int), kb(tl, n));
        }
    }
}

/// all cases of the intersection's next_indices at once
pub open spec fn ix_cases<P: Prefix, L, R>(tl: Seq<Node<P, L>>, tr: Seq<Node<P, R>>, xa: Seq<bool>, xb: Seq<bool>, z: Seq<bool>, st: bool, a: Option<usize>, b: Option<usize>) -> bool {
    match (a, b) {
        (Some(a), Some(b)) => {
            let ka = kb(tl, a as int); let kbb = kb(tr, b as int);
            (ka =~= kbb ==> ix_post(tl, tr, xa, xb, z, st, s1(Ent::Both(a, b))))
            && (spre(ka, kbb) ==> ix_post(tl, tr, xa, xb, z, st, s1(Ent::FirstL(a, b))))
            && (spre(kbb, ka) ==> ix_post(tl, tr, xa, xb, z, st, s1(Ent::FirstR(a, b))))
            && (incomparable(ka, kbb) ==> ix_post(tl, tr, xa, xb, z, st, Seq::<Ent>::empty()))
        },
        _ => ix_post(tl, tr, xa, xb, z, st, Seq::<Ent>::empty()),
    }
}

pub proof fn lemma_ix_cases<P: Prefix, L, R>(tl: Seq<Node<P, L>>, tr: Seq<Node<P, R>>, a: Option<usize>, b: Option<usize>)
    ensures forall|xa: Seq<bool>, xb: Seq<bool>, z: Seq<bool>, st: bool| #[trigger] ni_pre(tl, tr, xa, xb, z, st, a, b) ==> ix_cases(tl, tr, xa, xb, z, st, a, b)
{
    assert forall|xa: Seq<bool>, xb: Seq<bool>, z: Seq<bool>, st: bool| #[trigger] ni_pre(tl, tr, xa, xb, z, st, a, b) implies ix_cases(tl, tr, xa, xb, z, st, a, b) by {
        if a.is_some() && b.is_some() {
            let a_ = a.unwrap(); let b_ = b.unwrap();
            let ka = kb(tl, a_ as int); let kbb = kb(tr, b_ as int);
            if ka =~= kbb { lemma_ni_both(tl, tr, xa, xb, z, st, a_, b_); lemma_ni_ix(tl, tr, xa, xb, z, st, s1(Ent::Both(a_, b_))); }
            if spre(ka, kbb) { lemma_ni_first_l(tl, tr, xa, xb, z, st, a_, b_); lemma_ni_ix(tl, tr, xa, xb, z, st, s1(Ent::FirstL(a_, b_))); }
            if spre(kbb, ka) { lemma_ni_first_r(tl, tr, xa, xb, z, st, a_, b_); lemma_ni_ix(tl, tr, xa, xb, z, st, s1(Ent::FirstR(a_, b_))); }
            if incomparable(ka, kbb) { lemma_ix_prune(tl, tr, xa, xb, z, st, a, b); }
        } else {
            lemma_ix_prune(tl, tr, xa, xb, z, st, a, b);
        }
    }
}

/// the two halves below x (intersection)
pub proof fn lemma_ix_concat<P: Prefix, L, R>(tl: Seq<Node<P, L>>, tr: Seq<Node<P, R>>, xa: Seq<bool>, xb: Seq<bool>, x: Seq<bool>, csr: Seq<Ent>, csl: Seq<Ent>)
    requires ix_post(tl, tr, xa, xb, x.push(true), false, csr), ix_post(tl, tr, xa, xb, x.push(false), false, csl)
    ensures ix_post(tl, tr, xa, xb, x, true, csr + csl)
{
    reveal(ents_ok); reveal(ents_cover2);
    lemma_half_region(x, true);
    lemma_half_region(x, false);
    let cs = csr + csl;
    assert forall|k: int| 0 <= k < cs.len() implies ent_ok(tl, tr, xa, xb, #[trigger] cs[k]) && in_reg(x, true, ent_key(tl, tr, cs[k])) by {
        if k < csr.len() { assert(cs[k] == csr[k]); assert(pre(x.push(true), ent_key(tl, tr, csr[k]))); }
        else { assert(cs[k] == csl[k - csr.len()]); assert(pre(x.push(false), ent_key(tl, tr, csl[k - csr.len()]))); }
    }
    assert forall|k: int, j: int| 0 <= k < j < cs.len() implies
            incomparable(ent_key(tl, tr, #[trigger] cs[k]), ent_key(tl, tr, #[trigger] cs[j])) && lex_lt(ent_key(tl, tr, cs[j]), ent_key(tl, tr, cs[k])) by {
        if j < csr.len() { assert(cs[k] == csr[k] && cs[j] == csr[j]); }
        else if k >= csr.len() { assert(cs[k] == csl[k - csr.len()] && cs[j] == csl[j - csr.len()]); }
        else {
            assert(cs[k] == csr[k] && cs[j] == csl[j - csr.len()]);
            assert(pre(x.push(true), ent_key(tl, tr, csr[k])) && pre(x.push(false), ent_key(tl, tr, csl[j - csr.len()])));
            lemma_lex_children(x, ent_key(tl, tr, csl[j - csr.len()]), ent_key(tl, tr, csr[k]));
        }
    }
    assert forall|n: int, m: int| #![trigger tlive(tl).contains(n), tlive(tr).contains(m)]
        vin(tl, xa, n) && vin(tr, xb, m) && kb(tl, n) =~= kb(tr, m) && spre(x, kb(tl, n)) implies exists|k: int| 0 <= k < cs.len() && pre(ent_key(tl, tr, #[trigger] cs[k]), kb(tl, n)) by {
        if kb(tl, n)[x.len() as int] {
            assert(pre(x.push(true), kb(tl, n)));
            let k1 = choose|k: int| 0 <= k < csr.len() && pre(ent_key(tl, tr, #[trigger] csr[k]), kb(tl, n));
            assert(cs[k1] == csr[k1]);
        } else {
            assert(pre(x.push(false), kb(tl, n)));
            let k1 = choose|k: int| 0 <= k < csl.len() && pre(ent_key(tl, tr, #[trigger] csl[k]), kb(tl, n));
            assert(cs[csr.len() + k1] == csl[k1]);
        }
    }
}

/// entries of both views stored under one common key that the stack still has to deliver
pub open spec fn rem2<P: Prefix, L, R>(tl: Seq<Node<P, L>>, tr: Seq<Node<P, R>>, xa: Seq<bool>, xb: Seq<bool>, es: Seq<Ent>, n: int, m: int) -> bool {
    vin(tl, xa, n) && vin(tr, xb, m) && kb(tl, n) =~= kb(tr, m) && tl[n].value.is_some() && tr[m].value.is_some() && kcov(tl, tr, es, kb(tl, n))
}
pub open spec fn yields2<P: Prefix, L, R>(tl: Seq<Node<P, L>>, tr: Seq<Node<P, R>>, xa: Seq<bool>, xb: Seq<bool>, es0: Seq<Ent>, es1: Seq<Ent>, x: Seq<bool>) -> bool {
    &&& (forall|n: int, m: int| #![trigger tlive(tl).contains(n), tlive(tr).contains(m)] rem2(tl, tr, xa, xb, es0, n, m) && !(kb(tl, n) =~= x) ==> lex_lt(x, kb(tl, n)))
    &&& (forall|n: int, m: int| #![trigger tlive(tl).contains(n), tlive(tr).contains(m)] rem2(tl, tr, xa, xb, es1, n, m) == (rem2(tl, tr, xa, xb, es0, n, m) && !(kb(tl, n) =~= x)))
}
pub open spec fn same_rem2<P: Prefix, L, R>(tl: Seq<Node<P, L>>, tr: Seq<Node<P, R>>, xa: Seq<bool>, xb: Seq<bool>, es0: Seq<Ent>, es1: Seq<Ent>) -> bool {
    forall|n: int, m: int| #![trigger tlive(tl).contains(n), tlive(tr).contains(m)] rem2(tl, tr, xa, xb, es1, n, m) == rem2(tl, tr, xa, xb, es0, n, m)
}
pub open spec fn no_rem2<P: Prefix, L, R>(tl: Seq<Node<P, L>>, tr: Seq<Node<P, R>>, xa: Seq<bool>, xb: Seq<bool>, es: Seq<Ent>) -> bool {
    forall|n: int, m: int| #![trigger tlive(tl).contains(n), tlive(tr).contains(m)] !rem2(tl, tr, xa, xb, es, n, m)
}

/// popping the top entry (key x) and pushing entries cs: structure of the new stack (no coverage claim)
pub proof fn lemma_stack_replace_ok<P: Prefix, L, R>(tl: Seq<Node<P, L>>, tr: Seq<Node<P, R>>, xa: Seq<bool>, xb: Seq<bool>, es: Seq<Ent>, cs: Seq<Ent>)
    requires
        ss_ok(tl, tr, xa, xb, es), es.len() > 0,
        ents_ok(tl, tr, xa, xb, ent_key(tl, tr, es.last()), true, cs),
    ensures
        ss_ok(tl, tr, xa, xb, es.drop_last() + cs),
        ent_ok(tl, tr, xa, xb, es.last()),
        forall|k: Seq<bool>| #[trigger] kcov(tl, tr, es, k) && !(k =~= ent_key(tl, tr, es.last())) ==> lex_lt(ent_key(tl, tr, es.last()), k),
        forall|k: Seq<bool>| #[trigger] kcov(tl, tr, es.drop_last() + cs, k) ==> kcov(tl, tr, es, k) && !(k =~= ent_key(tl, tr, es.last())),
        forall|k: Seq<bool>| #[trigger] kcov(tl, tr, es, k) && !pre(ent_key(tl, tr, es.last()), k) ==> kcov(tl, tr, es.drop_last() + cs, k),
        forall|j: int| 0 <= j < cs.len() ==> spre(ent_key(tl, tr, es.last()), ent_key(tl, tr, #[trigger] cs[j])),
{
    reveal(ents_ok);
    let x = ent_key(tl, tr, es.last());
    let rest = es.drop_last();
    let es2 = rest + cs;
    let top = es.len() - 1;
    assert(es[top] == es.last());
    assert forall|k: int| 0 <= k < es2.len() implies ent_ok(tl, tr, xa, xb, #[trigger] es2[k]) && in_reg(Seq::<bool>::empty(), false, ent_key(tl, tr, es2[k])) by {
        if k < rest.len() { assert(es2[k] == es[k]); } else { assert(es2[k] == cs[k - rest.len()]); }
    }
    assert forall|k: int, j: int| 0 <= k < j < es2.len() implies
            incomparable(ent_key(tl, tr, #[trigger] es2[k]), ent_key(tl, tr, #[trigger] es2[j])) && lex_lt(ent_key(tl, tr, es2[j]), ent_key(tl, tr, es2[k])) by {
        if j < rest.len() {
            assert(es2[k] == es[k] && es2[j] == es[j]);
        } else if k < rest.len() {
            assert(es2[k] == es[k] && es2[j] == cs[j - rest.len()]);
            assert(incomparable(ent_key(tl, tr, es[k]), ent_key(tl, tr, es[top])) && lex_lt(ent_key(tl, tr, es[top]), ent_key(tl, tr, es[k])));
            lemma_pre_refl(ent_key(tl, tr, es[k]));
            lemma_lex_regions(x, ent_key(tl, tr, es[k]), ent_key(tl, tr, cs[j - rest.len()]), ent_key(tl, tr, es[k]));
        } else {
            assert(es2[k] == cs[k - rest.len()] && es2[j] == cs[j - rest.len()]);
        }
    }
    assert forall|k: Seq<bool>| #[trigger] kcov(tl, tr, es, k) && !(k =~= x) implies lex_lt(x, k) by {
        let j = choose|j: int| 0 <= j < es.len() && pre(ent_key(tl, tr, #[trigger] es[j]), k);
        if j < top {
            assert(incomparable(ent_key(tl, tr, es[j]), ent_key(tl, tr, es[top])) && lex_lt(ent_key(tl, tr, es[top]), ent_key(tl, tr, es[j])));
            lemma_pre_refl(x);
            lemma_lex_regions(x, ent_key(tl, tr, es[j]), x, k);
        } else {
            lemma_lex_spre(x, k);
        }
    }
    assert forall|k: Seq<bool>| #[trigger] kcov(tl, tr, es2, k) implies kcov(tl, tr, es, k) && !(k =~= x) by { lemma_cov_replace(tl, tr, es, cs, k); }
    assert forall|k: Seq<bool>| #[trigger] kcov(tl, tr, es, k) && !pre(x, k) implies kcov(tl, tr, es2, k) by { lemma_cov_replace(tl, tr, es, cs, k); }
}

/// [C06] one step of the intersection traversal
pub proof fn lemma_ix_step<P: Prefix, L, R>(tl: Seq<Node<P, L>>, tr: Seq<Node<P, R>>, xa: Seq<bool>, xb: Seq<bool>, es: Seq<Ent>, cs: Seq<Ent>)
    requires
        ss_ok(tl, tr, xa, xb, es), es.len() > 0,
        ix_post(tl, tr, xa, xb, ent_key(tl, tr, es.last()), true, cs),
    ensures
        ss_ok(tl, tr, xa, xb, es.drop_last() + cs),
        yields2(tl, tr, xa, xb, es, es.drop_last() + cs, ent_key(tl, tr, es.last())),
        kcov(tl, tr, es, ent_key(tl, tr, es.last())),
        0 <= ucnt(tl, tr, xa, xb, es.drop_last() + cs) < ucnt(tl, tr, xa, xb, es),
{
    let e = es.last();
    let x = ent_key(tl, tr, e);
    let es2 = es.drop_last() + cs;
    lemma_stack_replace_ok(tl, tr, xa, xb, es, cs);
    lemma_ent_at(tl, tr, xa, xb, e);
    lemma_pre_refl(x);
    assert(es[es.len() - 1] == e);
    assert(kcov(tl, tr, es, x));
    assert forall|n: int, m: int| #![trigger tlive(tl).contains(n), tlive(tr).contains(m)] rem2(tl, tr, xa, xb, es2, n, m) == (rem2(tl, tr, xa, xb, es, n, m) && !(kb(tl, n) =~= x)) by {
        if rem2(tl, tr, xa, xb, es, n, m) && !(kb(tl, n) =~= x) && pre(x, kb(tl, n)) {
            reveal(ents_cover2);
            let k1 = choose|k: int| 0 <= k < cs.len() && pre(ent_key(tl, tr, #[trigger] cs[k]), kb(tl, n));
            assert(es2[es.drop_last().len() + k1] == cs[k1]);
        }
    }
    let fl = cov_l(tl, tr, xa, es); let gl = cov_l(tl, tr, xa, es2);
    let fr = cov_r(tl, tr, xb, es); let gr = cov_r(tl, tr, xb, es2);
    assert forall|i: int| 0 <= i < tl.len() && #[trigger] gl(i) implies fl(i) by { }
    assert forall|i: int| 0 <= i < tr.len() && #[trigger] gr(i) implies fr(i) by { }
    let wl = if ent_l(e).is_some() { ent_l(e).unwrap() as int } else { -1 };
    let wr = if ent_r(e).is_some() { ent_r(e).unwrap() as int } else { -1 };
    if ent_l(e).is_some() { assert(fl(wl) && !gl(wl)); }
    if ent_r(e).is_some() { assert(fr(wr) && !gr(wr)); }
    lemma_icnt(fl, gl, tl.len() as int, wl);
    lemma_icnt(fr, gr, tr.len() as int, wr);
}

/// children of a Both entry, intersection flavour (same precondition as for the union)
// (lemma_both_children is shared)

// ---- ix one-sided descent: the left view's node l is strictly above the right view's node r (entry FirstL(l, r)) ----

/// two children, r on side s: only the half region on r's side can hold common keys
pub proof fn lemma_ixl_two<P: Prefix, L, R>(tl: Seq<Node<P, L>>, tr: Seq<Node<P, R>>, xa: Seq<bool>, xb: Seq<bool>, l: usize, r: usize, s: bool, es1: Seq<Ent>)
    requires
        twf(tl), twf(tr), ent_ok(tl, tr, xa, xb, Ent::FirstL(l, r)),
        kb(tr, r as int)[kb(tl, l as int).len() as int] == s,
        ix_post(tl, tr, xa, xb, kb(tl, l as int).push(s), false, es1),
    ensures ix_post(tl, tr, xa, xb, kb(tl, l as int), true, es1)
{
    reveal(ents_ok); reveal(ents_cover2);
    let x = kb(tl, l as int);
    lemma_half_region(x, s);
    assert forall|k: int| 0 <= k < es1.len() implies in_reg(x, true, ent_key(tl, tr, #[trigger] es1[k])) by {
        assert(pre(x.push(s), ent_key(tl, tr, es1[k])));
    }
    assert forall|n: int, m: int| #![trigger tlive(tl).contains(n), tlive(tr).contains(m)]
        vin(tl, xa, n) && vin(tr, xb, m) && kb(tl, n) =~= kb(tr, m) && spre(x, kb(tl, n)) implies exists|k: int| 0 <= k < es1.len() && pre(ent_key(tl, tr, #[trigger] es1[k]), kb(tl, n)) by {
        lemma_pre_refl(x);
        assert(pre(kb(tr, r as int), kb(tr, m)));
        assert(kb(tr, m)[x.len() as int] == s);
        assert(pre(x.push(s), kb(tl, n)));
    }
}

pub open spec fn ixl_cases<P: Prefix, L, R>(tl: Seq<Node<P, L>>, tr: Seq<Node<P, R>>, xa: Seq<bool>, xb: Seq<bool>, l: usize, r: usize) -> bool {
    let x = kb(tl, l as int);
    let cl = chd(tl, l as int, false); let cr = chd(tl, l as int, true);
    let s = kb(tr, r as int)[x.len() as int];
    &&& (cl.is_none() && cr.is_none() ==> ix_post(tl, tr, xa, xb, x, true, Seq::<Ent>::empty()))
    &&& (cl.is_none() && cr.is_some() ==> ni_pre(tl, tr, xa, xb, x, true, cr, Some(r)))
    &&& (cl.is_some() && cr.is_none() ==> ni_pre(tl, tr, xa, xb, x, true, cl, Some(r)))
    &&& (cl.is_some() && cr.is_some() ==> ni_pre(tl, tr, xa, xb, x.push(s), false, chd(tl, l as int, s), Some(r))
            && (forall|es1: Seq<Ent>| #[trigger] ix_post(tl, tr, xa, xb, x.push(s), false, es1) ==> ix_post(tl, tr, xa, xb, x, true, es1)))
}

pub proof fn lemma_ixl_cases<P: Prefix, L, R>(tl: Seq<Node<P, L>>, tr: Seq<Node<P, R>>, xa: Seq<bool>, xb: Seq<bool>, l: usize, r: usize)
    requires twf(tl), twf(tr), ent_ok(tl, tr, xa, xb, Ent::FirstL(l, r))
    ensures ixl_cases(tl, tr, xa, xb, l, r)
{
    let x = kb(tl, l as int);
    let cl = chd(tl, l as int, false); let cr = chd(tl, l as int, true);
    let s = kb(tr, r as int)[x.len() as int];
    if cl.is_none() && cr.is_none() {
        lemma_fl_none(tl, tr, xa, xb, l, r);
        // no left-view node strictly below l: nothing in common
        reveal(ents_ok); reveal(ents_cover2);
        lemma_fl_facts(tl, tr, xa, xb, l, r);
        assert forall|n: int, m: int| #![trigger tlive(tl).contains(n), tlive(tr).contains(m)]
            vin(tl, xa, n) && vin(tr, xb, m) && kb(tl, n) =~= kb(tr, m) && spre(x, kb(tl, n)) implies false by {
            assert(chd(tl, l as int, kb(tl, n)[x.len() as int]).is_some());
        }
    }
    if cl.is_none() && cr.is_some() { lemma_fl_one(tl, tr, xa, xb, l, r, true); }
    if cl.is_some() && cr.is_none() { lemma_fl_one(tl, tr, xa, xb, l, r, false); }
    if cl.is_some() && cr.is_some() {
        lemma_fl_two_pre(tl, tr, xa, xb, l, r, s);
        assert forall|es1: Seq<Ent>| #[trigger] ix_post(tl, tr, xa, xb, x.push(s), false, es1) implies ix_post(tl, tr, xa, xb, x, true, es1) by {
            lemma_ixl_two(tl, tr, xa, xb, l, r, s, es1);
        }
    }
}

// ---- end of the lemma_ixl family ----

// ---- difference (C07, C08): regions without left-view nodes are dropped; right-view nodes stay covered as far as they cover a left-view node ----

#[verifier::opaque]
pub open spec fn ents_cover_d<P: Prefix, L, R>(tl: Seq<Node<P, L>>, tr: Seq<Node<P, R>>, xa: Seq<bool>, xb: Seq<bool>, z: Seq<bool>, st: bool, es: Seq<Ent>) -> bool {
    &&& (forall|n: int| #![trigger tlive(tl).contains(n)] vin(tl, xa, n) && in_reg(z, st, kb(tl, n)) ==> exists|k: int| 0 <= k < es.len() && pre(ent_key(tl, tr, #[trigger] es[k]), kb(tl, n)))
    &&& (forall|m: int, n: int| #![trigger tlive(tr).contains(m), tlive(tl).contains(n)] vin(tr, xb, m) && vin(tl, xa, n) && pre(kb(tr, m), kb(tl, n)) && in_reg(z, st, kb(tr, m))
            ==> exists|k: int| 0 <= k < es.len() && pre(ent_key(tl, tr, #[trigger] es[k]), kb(tr, m)))
}

pub open spec fn no_only_r(es: Seq<Ent>) -> bool {
    forall|k: int| 0 <= k < es.len() ==> !((#[trigger] es[k]) is OnlyR)
}

pub open spec fn df_post<P: Prefix, L, R>(tl: Seq<Node<P, L>>, tr: Seq<Node<P, R>>, xa: Seq<bool>, xb: Seq<bool>, z: Seq<bool>, st: bool, es: Seq<Ent>) -> bool {
    ents_ok(tl, tr, xa, xb, z, st, es) && ents_cover_d(tl, tr, xa, xb, z, st, es) && no_only_r(es)
}

pub proof fn lemma_ni_df<P: Prefix, L, R>(tl: Seq<Node<P, L>>, tr: Seq<Node<P, R>>, xa: Seq<bool>, xb: Seq<bool>, z: Seq<bool>, st: bool, es: Seq<Ent>)
    requires ni_post(tl, tr, xa, xb, z, st, es), no_only_r(es)
    ensures df_post(tl, tr, xa, xb, z, st, es)
{
    reveal(ents_cover); reveal(ents_cover_d);
}

/// the right view has nothing at or below the left node a in this region: a single OnlyL entry
pub proof fn lemma_df_only_l<P: Prefix, L, R>(tl: Seq<Node<P, L>>, tr: Seq<Node<P, R>>, xa: Seq<bool>, xb: Seq<bool>, z: Seq<bool>, st: bool, a: usize, b: Option<usize>)
    requires
        ni_pre(tl, tr, xa, xb, z, st, Some(a), b),
        b.is_some() ==> incomparable(kb(tl, a as int), kb(tr, b.unwrap() as int)),
    ensures df_post(tl, tr, xa, xb, z, st, s1(Ent::OnlyL(a)))
{
    reveal(ents_ok); reveal(ents_cover_d);
    let ka = kb(tl, a as int);
    let es = s1(Ent::OnlyL(a));
    assert(es[0] == Ent::OnlyL(a));
    assert forall|m: int| #![trigger tlive(tr).contains(m)] vin(tr, xb, m) implies !pre(ka, kb(tr, m)) by {
        if pre(ka, kb(tr, m)) {
            lemma_in_reg_trans(z, st, ka, kb(tr, m));
            if b.is_some() { lemma_pre_comparable(ka, kb(tr, b.unwrap() as int), kb(tr, m)); }
        }
    }
    assert forall|n: int| #![trigger tlive(tl).contains(n)] vin(tl, xa, n) && in_reg(z, st, kb(tl, n)) implies exists|k: int| 0 <= k < es.len() && pre(ent_key(tl, tr, #[trigger] es[k]), kb(tl, n)) by {
        assert(pre(ent_key(tl, tr, es[0]), kb(tl, n)));
    }
    assert forall|m: int, n: int| #![trigger tlive(tr).contains(m), tlive(tl).contains(n)] vin(tr, xb, m) && vin(tl, xa, n) && pre(kb(tr, m), kb(tl, n)) && in_reg(z, st, kb(tr, m))
            implies exists|k: int| 0 <= k < es.len() && pre(ent_key(tl, tr, #[trigger] es[k]), kb(tr, m)) by {
        // impossible: m lies below b, n below a (n is in the region as well), and a, b are incomparable
        lemma_in_reg_trans(z, st, kb(tr, m), kb(tl, n));
        if b.is_some() {
            lemma_pre_trans(kb(tr, b.unwrap() as int), kb(tr, m), kb(tl, n));
            lemma_pre_comparable(ka, kb(tr, b.unwrap() as int), kb(tl, n));
        }
    }
}

/// nothing of the left view in the region: nothing to push
pub proof fn lemma_df_none<P: Prefix, L, R>(tl: Seq<Node<P, L>>, tr: Seq<Node<P, R>>, xa: Seq<bool>, xb: Seq<bool>, z: Seq<bool>, st: bool, b: Option<usize>)
    requires ni_pre::<P, L, R>(tl, tr, xa, xb, z, st, None, b)
    ensures df_post(tl, tr, xa, xb, z, st, Seq::<Ent>::empty())
{
    reveal(ents_ok); reveal(ents_cover_d);
    assert forall|m: int, n: int| #![trigger tlive(tr).contains(m), tlive(tl).contains(n)] vin(tr, xb, m) && vin(tl, xa, n) && pre(kb(tr, m), kb(tl, n)) && in_reg(z, st, kb(tr, m)) implies false by {
        lemma_in_reg_trans(z, st, kb(tr, m), kb(tl, n));
    }
}

/// all cases of the difference's next_indices at once
pub open spec fn df_cases<P: Prefix, L, R>(tl: Seq<Node<P, L>>, tr: Seq<Node<P, R>>, xa: Seq<bool>, xb: Seq<bool>, z: Seq<bool>, st: bool, a: Option<usize>, b: Option<usize>) -> bool {
    match (a, b) {
        (None, _) => df_post(tl, tr, xa, xb, z, st, Seq::<Ent>::empty()),
        (Some(a), None) => df_post(tl, tr, xa, xb, z, st, s1(Ent::OnlyL(a))),
        (Some(a), Some(b)) => {
            let ka = kb(tl, a as int); let kbb = kb(tr, b as int);
            (ka =~= kbb ==> df_post(tl, tr, xa, xb, z, st, s1(Ent::Both(a, b))))
            && (spre(ka, kbb) ==> df_post(tl, tr, xa, xb, z, st, s1(Ent::FirstL(a, b))))
            && (spre(kbb, ka) ==> df_post(tl, tr, xa, xb, z, st, s1(Ent::FirstR(a, b))))
            && (incomparable(ka, kbb) ==> df_post(tl, tr, xa, xb, z, st, s1(Ent::OnlyL(a))))
        },
    }
}

pub proof fn lemma_df_cases<P: Prefix, L, R>(tl: Seq<Node<P, L>>, tr: Seq<Node<P, R>>, a: Option<usize>, b: Option<usize>)
    ensures forall|xa: Seq<bool>, xb: Seq<bool>, z: Seq<bool>, st: bool| #[trigger] ni_pre(tl, tr, xa, xb, z, st, a, b) ==> df_cases(tl, tr, xa, xb, z, st, a, b)
{
    assert forall|xa: Seq<bool>, xb: Seq<bool>, z: Seq<bool>, st: bool| #[trigger] ni_pre(tl, tr, xa, xb, z, st, a, b) implies df_cases(tl, tr, xa, xb, z, st, a, b) by {
        if a.is_none() {
            lemma_df_none(tl, tr, xa, xb, z, st, b);
        } else if b.is_none() {
            lemma_df_only_l(tl, tr, xa, xb, z, st, a.unwrap(), None);
        } else {
            let a_ = a.unwrap(); let b_ = b.unwrap();
            let ka = kb(tl, a_ as int); let kbb = kb(tr, b_ as int);
            if ka =~= kbb { lemma_ni_both(tl, tr, xa, xb, z, st, a_, b_); assert(s1(Ent::Both(a_, b_))[0] == Ent::Both(a_, b_)); lemma_ni_df(tl, tr, xa, xb, z, st, s1(Ent::Both(a_, b_))); }
            if spre(ka, kbb) { lemma_ni_first_l(tl, tr, xa, xb, z, st, a_, b_); assert(s1(Ent::FirstL(a_, b_))[0] == Ent::FirstL(a_, b_)); lemma_ni_df(tl, tr, xa, xb, z, st, s1(Ent::FirstL(a_, b_))); }
            if spre(kbb, ka) { lemma_ni_first_r(tl, tr, xa, xb, z, st, a_, b_); assert(s1(Ent::FirstR(a_, b_))[0] == Ent::FirstR(a_, b_)); lemma_ni_df(tl, tr, xa, xb, z, st, s1(Ent::FirstR(a_, b_))); }
            if incomparable(ka, kbb) { lemma_df_only_l(tl, tr, xa, xb, z, st, a_, b); }
        }
    }
}

/// the two halves below x (difference)
pub proof fn lemma_df_concat<P: Prefix, L, R>(tl: Seq<Node<P, L>>, tr: Seq<Node<P, R>>, xa: Seq<bool>, xb: Seq<bool>, x: Seq<bool>, csr: Seq<Ent>, csl: Seq<Ent>)
    requires df_post(tl, tr, xa, xb, x.push(true), false, csr), df_post(tl, tr, xa, xb, x.push(false), false, csl)
    ensures df_post(tl, tr, xa, xb, x, true, csr + csl)
{
    reveal(ents_ok); reveal(ents_cover_d);
    lemma_half_region(x, true);
    lemma_half_region(x, false);
    let cs = csr + csl;
    assert forall|k: int| 0 <= k < cs.len() implies ent_ok(tl, tr, xa, xb, #[trigger] cs[k]) && in_reg(x, true, ent_key(tl, tr, cs[k])) && !(cs[k] is OnlyR) by {
        if k < csr.len() { assert(cs[k] == csr[k]); assert(pre(x.push(true), ent_key(tl, tr, csr[k]))); }
        else { assert(cs[k] == csl[k - csr.len()]); assert(pre(x.push(false), ent_key(tl, tr, csl[k - csr.len()]))); }
    }
    assert forall|k: int, j: int| 0 <= k < j < cs.len() implies
            incomparable(ent_key(tl, tr, #[trigger] cs[k]), ent_key(tl, tr, #[trigger] cs[j])) && lex_lt(ent_key(tl, tr, cs[j]), ent_key(tl, tr, cs[k])) by {
        if j < csr.len() { assert(cs[k] == csr[k] && cs[j] == csr[j]); }
        else if k >= csr.len() { assert(cs[k] == csl[k - csr.len()] && cs[j] == csl[j - csr.len()]); }
        else {
            assert(cs[k] == csr[k] && cs[j] == csl[j - csr.len()]);
            assert(pre(x.push(true), ent_key(tl, tr, csr[k])) && pre(x.push(false), ent_key(tl, tr, csl[j - csr.len()])));
            lemma_lex_children(x, ent_key(tl, tr, csl[j - csr.len()]), ent_key(tl, tr, csr[k]));
        }
    }
    assert forall|n: int| #![trigger tlive(tl).contains(n)] vin(tl, xa, n) && spre(x, kb(tl, n)) implies exists|k: int| 0 <= k < cs.len() && pre(ent_key(tl, tr, #[trigger] cs[k]), kb(tl, n)) by {
        if kb(tl, n)[x.len() as int] {
            assert(pre(x.push(true), kb(tl, n)));
            let k1 = choose|k: int| 0 <= k < csr.len() && pre(ent_key(tl, tr, #[trigger] csr[k]), kb(tl, n));
            assert(cs[k1] == csr[k1]);
        } else {
            assert(pre(x.push(false), kb(tl, n)));
            let k1 = choose|k: int| 0 <= k < csl.len() && pre(ent_key(tl, tr, #[trigger] csl[k]), kb(tl, n));
            assert(cs[csr.len() + k1] == csl[k1]);
        }
    }
    assert forall|m: int, n: int| #![trigger tlive(tr).contains(m), tlive(tl).contains(n)] vin(tr, xb, m) && vin(tl, xa, n) && pre(kb(tr, m), kb(tl, n)) && spre(x, kb(tr, m))
            implies exists|k: int| 0 <= k < cs.len() && pre(ent_key(tl, tr, #[trigger] cs[k]), kb(tr, m)) by {
        if kb(tr, m)[x.len() as int] {
            assert(pre(x.push(true), kb(tr, m)));
            let k1 = choose|k: int| 0 <= k < csr.len() && pre(ent_key(tl, tr, #[trigger] csr[k]), kb(tr, m));
            assert(cs[k1] == csr[k1]);
        } else {
            assert(pre(x.push(false), kb(tr, m)));
            let k1 = choose|k: int| 0 <= k < csl.len() && pre(ent_key(tl, tr, #[trigger] csl[k]), kb(tr, m));
            assert(cs[csr.len() + k1] == csl[k1]);
        }
    }
}

// ---- difference: one-sided descents ----
// The lemmas of this block use lemma_fr_* (mirrored family, defined at the end of the file).

/// FirstL(l, r), l has two children, r on side s: es1 describes the half region on r's side, the other child of l is an OnlyL entry
pub proof fn lemma_dfl_two<P: Prefix, L, R>(tl: Seq<Node<P, L>>, tr: Seq<Node<P, R>>, xa: Seq<bool>, xb: Seq<bool>, l: usize, r: usize, s: bool, es1: Seq<Ent>)
    requires
        twf(tl), twf(tr), ent_ok(tl, tr, xa, xb, Ent::FirstL(l, r)), chd(tl, l as int, s).is_some(), chd(tl, l as int, !s).is_some(),
        kb(tr, r as int)[kb(tl, l as int).len() as int] == s,
        df_post(tl, tr, xa, xb, kb(tl, l as int).push(s), false, es1),
    ensures
        df_post(tl, tr, xa, xb, kb(tl, l as int), true, (if s { es1.push(Ent::OnlyL(chd(tl, l as int, false).unwrap())) } else { es1.insert(0, Ent::OnlyL(chd(tl, l as int, true).unwrap())) })),
{
    lemma_fl_two_ok(tl, tr, xa, xb, l, r, s, es1);
    lemma_fl_facts(tl, tr, xa, xb, l, r);
    reveal(ents_cover_d);
    let x = kb(tl, l as int);
    lemma_half_region(x, s);
    let zs = x.push(s);
    let o = chd(tl, l as int, !s).unwrap();
    let eo = Ent::OnlyL(o);
    let es = if s { es1.push(eo) } else { es1.insert(0, eo) };
    assert forall|k: int| 0 <= k < es.len() implies !((#[trigger] es[k]) is OnlyR) by {
        if s { if k < es1.len() { assert(es[k] == es1[k]); } } else { if k > 0 { assert(es[k] == es1[k - 1]); } }
    }
    assert forall|n: int| #![trigger tlive(tl).contains(n)] vin(tl, xa, n) && spre(x, kb(tl, n)) implies exists|k: int| 0 <= k < es.len() && pre(ent_key(tl, tr, #[trigger] es[k]), kb(tl, n)) by {
        if kb(tl, n)[x.len() as int] == s {
            assert(pre(zs, kb(tl, n)));
            let k1 = choose|k: int| 0 <= k < es1.len() && pre(ent_key(tl, tr, #[trigger] es1[k]), kb(tl, n));
            if s { assert(es[k1] == es1[k1]); } else { assert(es[k1 + 1] == es1[k1]); }
        } else {
            assert(chd(tl, l as int, kb(tl, n)[x.len() as int]).is_some());
            if s { assert(es[es1.len() as int] == eo); assert(pre(ent_key(tl, tr, es[es1.len() as int]), kb(tl, n))); }
            else { assert(es[0] == eo); assert(pre(ent_key(tl, tr, es[0]), kb(tl, n))); }
        }
    }
    assert forall|m: int, n: int| #![trigger tlive(tr).contains(m), tlive(tl).contains(n)] vin(tr, xb, m) && vin(tl, xa, n) && pre(kb(tr, m), kb(tl, n)) && spre(x, kb(tr, m))
            implies exists|k: int| 0 <= k < es.len() && pre(ent_key(tl, tr, #[trigger] es[k]), kb(tr, m)) by {
        lemma_pre_refl(x);
        assert(pre(kb(tr, r as int), kb(tr, m)));
        assert(kb(tr, m)[x.len() as int] == s);
        assert(pre(zs, kb(tr, m)));
        let k1 = choose|k: int| 0 <= k < es1.len() && pre(ent_key(tl, tr, #[trigger] es1[k]), kb(tr, m));
        if s { assert(es[k1] == es1[k1]); } else { assert(es[k1 + 1] == es1[k1]); }
    }
}

pub open spec fn dfl_cases<P: Prefix, L, R>(tl: Seq<Node<P, L>>, tr: Seq<Node<P, R>>, xa: Seq<bool>, xb: Seq<bool>, l: usize, r: usize) -> bool {
    let x = kb(tl, l as int);
    let cl = chd(tl, l as int, false); let cr = chd(tl, l as int, true);
    let s = kb(tr, r as int)[x.len() as int];
    &&& (cl.is_none() && cr.is_none() ==> df_post(tl, tr, xa, xb, x, true, Seq::<Ent>::empty()))
    &&& (cl.is_none() && cr.is_some() ==> ni_pre(tl, tr, xa, xb, x, true, cr, Some(r)))
    &&& (cl.is_some() && cr.is_none() ==> ni_pre(tl, tr, xa, xb, x, true, cl, Some(r)))
    &&& (cl.is_some() && cr.is_some() ==> ni_pre(tl, tr, xa, xb, x.push(s), false, chd(tl, l as int, s), Some(r))
            && (forall|es1: Seq<Ent>| #[trigger] df_post(tl, tr, xa, xb, x.push(s), false, es1) ==>
                    (s ==> df_post(tl, tr, xa, xb, x, true, es1.push(Ent::OnlyL(cl.unwrap()))))
                    && (!s ==> df_post(tl, tr, xa, xb, x, true, es1.insert(0, Ent::OnlyL(cr.unwrap()))))))
}

pub proof fn lemma_dfl_cases<P: Prefix, L, R>(tl: Seq<Node<P, L>>, tr: Seq<Node<P, R>>, xa: Seq<bool>, xb: Seq<bool>, l: usize, r: usize)
    requires twf(tl), twf(tr), ent_ok(tl, tr, xa, xb, Ent::FirstL(l, r))
    ensures dfl_cases(tl, tr, xa, xb, l, r)
{
    let x = kb(tl, l as int);
    let cl = chd(tl, l as int, false); let cr = chd(tl, l as int, true);
    let s = kb(tr, r as int)[x.len() as int];
    if cl.is_none() && cr.is_none() {
        reveal(ents_ok); reveal(ents_cover_d);
        lemma_fl_facts(tl, tr, xa, xb, l, r);
        assert forall|n: int| #![trigger tlive(tl).contains(n)] vin(tl, xa, n) implies !spre(x, kb(tl, n)) by {
            if spre(x, kb(tl, n)) { assert(chd(tl, l as int, kb(tl, n)[x.len() as int]).is_some()); }
        }
        assert forall|m: int, n: int| #![trigger tlive(tr).contains(m), tlive(tl).contains(n)] vin(tr, xb, m) && vin(tl, xa, n) && pre(kb(tr, m), kb(tl, n)) && spre(x, kb(tr, m)) implies false by {
            assert(tlive(tl).contains(n));
        }
    }
    if cl.is_none() && cr.is_some() { lemma_fl_one(tl, tr, xa, xb, l, r, true); }
    if cl.is_some() && cr.is_none() { lemma_fl_one(tl, tr, xa, xb, l, r, false); }
    if cl.is_some() && cr.is_some() {
        lemma_fl_two_pre(tl, tr, xa, xb, l, r, s);
        assert forall|es1: Seq<Ent>| #[trigger] df_post(tl, tr, xa, xb, x.push(s), false, es1) implies
                    (s ==> df_post(tl, tr, xa, xb, x, true, es1.push(Ent::OnlyL(cl.unwrap()))))
                    && (!s ==> df_post(tl, tr, xa, xb, x, true, es1.insert(0, Ent::OnlyL(cr.unwrap())))) by {
            lemma_dfl_two(tl, tr, xa, xb, l, r, s, es1);
        }
    }
}

/// FirstR(l, r), r has two children, l on side s: only the half region on l's side holds left-view nodes
pub proof fn lemma_dfr_two<P: Prefix, L, R>(tl: Seq<Node<P, L>>, tr: Seq<Node<P, R>>, xa: Seq<bool>, xb: Seq<bool>, l: usize, r: usize, s: bool, es1: Seq<Ent>)
    requires
        twf(tl), twf(tr), ent_ok(tl, tr, xa, xb, Ent::FirstR(l, r)),
        kb(tl, l as int)[kb(tr, r as int).len() as int] == s,
        df_post(tl, tr, xa, xb, kb(tr, r as int).push(s), false, es1),
    ensures df_post(tl, tr, xa, xb, kb(tr, r as int), true, es1)
{
    reveal(ents_ok); reveal(ents_cover_d);
    let x = kb(tr, r as int);
    lemma_half_region(x, s);
    lemma_pre_refl(x);
    assert forall|k: int| 0 <= k < es1.len() implies in_reg(x, true, ent_key(tl, tr, #[trigger] es1[k])) by {
        assert(pre(x.push(s), ent_key(tl, tr, es1[k])));
    }
    assert forall|n: int| #![trigger tlive(tl).contains(n)] vin(tl, xa, n) && spre(x, kb(tl, n)) implies exists|k: int| 0 <= k < es1.len() && pre(ent_key(tl, tr, #[trigger] es1[k]), kb(tl, n)) by {
        assert(pre(kb(tl, l as int), kb(tl, n)));
        assert(kb(tl, n)[x.len() as int] == s);
        assert(pre(x.push(s), kb(tl, n)));
    }
    assert forall|m: int, n: int| #![trigger tlive(tr).contains(m), tlive(tl).contains(n)] vin(tr, xb, m) && vin(tl, xa, n) && pre(kb(tr, m), kb(tl, n)) && spre(x, kb(tr, m))
            implies exists|k: int| 0 <= k < es1.len() && pre(ent_key(tl, tr, #[trigger] es1[k]), kb(tr, m)) by {
        lemma_pre_trans(x, kb(tr, m), kb(tl, n));
        assert(pre(kb(tl, l as int), kb(tl, n)));
        assert(kb(tl, n)[x.len() as int] == s);
        assert(kb(tr, m)[x.len() as int] == kb(tl, n)[x.len() as int]);
        assert(pre(x.push(s), kb(tr, m)));
    }
}

pub open spec fn dfr_cases<P: Prefix, L, R>(tl: Seq<Node<P, L>>, tr: Seq<Node<P, R>>, xa: Seq<bool>, xb: Seq<bool>, l: usize, r: usize) -> bool {
    let x = kb(tr, r as int);
    let cl = chd(tr, r as int, false); let cr = chd(tr, r as int, true);
    let s = kb(tl, l as int)[x.len() as int];
    &&& (cl.is_none() && cr.is_none() ==> df_post(tl, tr, xa, xb, x, true, s1(Ent::OnlyL(l))))
    &&& (cl.is_none() && cr.is_some() ==> ni_pre(tl, tr, xa, xb, x, true, Some(l), cr))
    &&& (cl.is_some() && cr.is_none() ==> ni_pre(tl, tr, xa, xb, x, true, Some(l), cl))
    &&& (cl.is_some() && cr.is_some() ==> ni_pre(tl, tr, xa, xb, x.push(s), false, Some(l), chd(tr, r as int, s))
            && (forall|es1: Seq<Ent>| #[trigger] df_post(tl, tr, xa, xb, x.push(s), false, es1) ==> df_post(tl, tr, xa, xb, x, true, es1)))
}

pub proof fn lemma_dfr_cases<P: Prefix, L, R>(tl: Seq<Node<P, L>>, tr: Seq<Node<P, R>>, xa: Seq<bool>, xb: Seq<bool>, l: usize, r: usize)
    requires twf(tl), twf(tr), ent_ok(tl, tr, xa, xb, Ent::FirstR(l, r))
    ensures dfr_cases(tl, tr, xa, xb, l, r)
{
    let x = kb(tr, r as int);
    let cl = chd(tr, r as int, false); let cr = chd(tr, r as int, true);
    let s = kb(tl, l as int)[x.len() as int];
    if cl.is_none() && cr.is_none() {
        lemma_fr_none(tl, tr, xa, xb, l, r);
        assert(s1(Ent::OnlyL(l))[0] == Ent::OnlyL(l));
        lemma_ni_df(tl, tr, xa, xb, x, true, s1(Ent::OnlyL(l)));
    }
    if cl.is_none() && cr.is_some() { lemma_fr_one(tl, tr, xa, xb, l, r, true); }
    if cl.is_some() && cr.is_none() { lemma_fr_one(tl, tr, xa, xb, l, r, false); }
    if cl.is_some() && cr.is_some() {
        lemma_fr_two_pre(tl, tr, xa, xb, l, r, s);
        assert forall|es1: Seq<Ent>| #[trigger] df_post(tl, tr, xa, xb, x.push(s), false, es1) implies df_post(tl, tr, xa, xb, x, true, es1) by {
            lemma_dfr_two(tl, tr, xa, xb, l, r, s, es1);
        }
    }
}

// ---- difference: stack steps, selections, annotations ----

/// view (t, x) stores an entry exactly at key k / stores an entry whose prefix covers k
pub open spec fn stored_in<P: Prefix, T>(t: Seq<Node<P, T>>, x: Seq<bool>, k: Seq<bool>) -> bool {
    exists|n: int| #![trigger tlive(t).contains(n)] vin(t, x, n) && kb(t, n) =~= k && t[n].value.is_some()
}
pub open spec fn covered_in<P: Prefix, T>(t: Seq<Node<P, T>>, x: Seq<bool>, k: Seq<bool>) -> bool {
    exists|n: int| #![trigger tlive(t).contains(n)] vin(t, x, n) && pre(kb(t, n), k) && t[n].value.is_some()
}
/// the exclusion criterion of difference (cov = false) / covering difference (cov = true)
pub open spec fn excl<P: Prefix, T>(t: Seq<Node<P, T>>, x: Seq<bool>, cov: bool, k: Seq<bool>) -> bool {
    if cov { covered_in(t, x, k) } else { stored_in(t, x, k) }
}
/// [C07] entries of the left view that are selected by the (covering) difference and still to be delivered
pub open spec fn dsel<P: Prefix, L, R>(tl: Seq<Node<P, L>>, tr: Seq<Node<P, R>>, xa: Seq<bool>, xb: Seq<bool>, cov: bool, es: Seq<Ent>, n: int) -> bool {
    rem_l(tl, tr, xa, es, n) && !excl(tr, xb, cov, kb(tl, n))
}
pub open spec fn yields_d<P: Prefix, L, R>(tl: Seq<Node<P, L>>, tr: Seq<Node<P, R>>, xa: Seq<bool>, xb: Seq<bool>, cov: bool, es0: Seq<Ent>, es1: Seq<Ent>, x: Seq<bool>) -> bool {
    &&& (forall|n: int| #![trigger tlive(tl).contains(n)] dsel(tl, tr, xa, xb, cov, es0, n) && !(kb(tl, n) =~= x) ==> lex_lt(x, kb(tl, n)))
    &&& (forall|n: int| #![trigger tlive(tl).contains(n)] dsel(tl, tr, xa, xb, cov, es1, n) == (dsel(tl, tr, xa, xb, cov, es0, n) && !(kb(tl, n) =~= x)))
}
pub open spec fn same_d<P: Prefix, L, R>(tl: Seq<Node<P, L>>, tr: Seq<Node<P, R>>, xa: Seq<bool>, xb: Seq<bool>, cov: bool, es0: Seq<Ent>, es1: Seq<Ent>) -> bool {
    forall|n: int| #![trigger tlive(tl).contains(n)] dsel(tl, tr, xa, xb, cov, es1, n) == dsel(tl, tr, xa, xb, cov, es0, n)
}
pub open spec fn no_d<P: Prefix, L, R>(tl: Seq<Node<P, L>>, tr: Seq<Node<P, R>>, xa: Seq<bool>, xb: Seq<bool>, cov: bool, es: Seq<Ent>) -> bool {
    forall|n: int| #![trigger tlive(tl).contains(n)] !dsel(tl, tr, xa, xb, cov, es, n)
}
/// left-view entries only (what the stack itself guarantees, before the exclusion criterion is applied)
pub open spec fn yields_l<P: Prefix, L, R>(tl: Seq<Node<P, L>>, tr: Seq<Node<P, R>>, xa: Seq<bool>, es0: Seq<Ent>, es1: Seq<Ent>, x: Seq<bool>) -> bool {
    &&& (forall|n: int| #![trigger tlive(tl).contains(n)] rem_l(tl, tr, xa, es0, n) && !(kb(tl, n) =~= x) ==> lex_lt(x, kb(tl, n)))
    &&& (forall|n: int| #![trigger tlive(tl).contains(n)] rem_l(tl, tr, xa, es1, n) == (rem_l(tl, tr, xa, es0, n) && !(kb(tl, n) =~= x)))
}

/// [C07] one step of a difference traversal: top entry (key x) popped, entries cs for the left-view nodes strictly below x pushed
pub proof fn lemma_df_step<P: Prefix, L, R>(tl: Seq<Node<P, L>>, tr: Seq<Node<P, R>>, xa: Seq<bool>, xb: Seq<bool>, es: Seq<Ent>, cs: Seq<Ent>)
    requires
        ss_ok(tl, tr, xa, xb, es), es.len() > 0, no_only_r(es),
        df_post(tl, tr, xa, xb, ent_key(tl, tr, es.last()), true, cs),
    ensures
        ss_ok(tl, tr, xa, xb, es.drop_last() + cs), no_only_r(es.drop_last() + cs),
        yields_l(tl, tr, xa, es, es.drop_last() + cs, ent_key(tl, tr, es.last())),
        kcov(tl, tr, es, ent_key(tl, tr, es.last())),
        0 <= ucnt(tl, tr, xa, xb, es.drop_last() + cs) < ucnt(tl, tr, xa, xb, es),
{
    let e = es.last();
    let x = ent_key(tl, tr, e);
    let rest = es.drop_last();
    let es2 = rest + cs;
    lemma_stack_replace_ok(tl, tr, xa, xb, es, cs);
    lemma_ent_at(tl, tr, xa, xb, e);
    lemma_pre_refl(x);
    assert(es[es.len() - 1] == e);
    assert(kcov(tl, tr, es, x));
    assert forall|k: int| 0 <= k < es2.len() implies !((#[trigger] es2[k]) is OnlyR) by {
        if k < rest.len() { assert(es2[k] == es[k]); } else { assert(es2[k] == cs[k - rest.len()]); }
    }
    assert forall|n: int| #![trigger tlive(tl).contains(n)] rem_l(tl, tr, xa, es2, n) == (rem_l(tl, tr, xa, es, n) && !(kb(tl, n) =~= x)) by {
        if rem_l(tl, tr, xa, es, n) && !(kb(tl, n) =~= x) && pre(x, kb(tl, n)) {
            reveal(ents_cover_d);
            let k1 = choose|k: int| 0 <= k < cs.len() && pre(ent_key(tl, tr, #[trigger] cs[k]), kb(tl, n));
            assert(es2[rest.len() + k1] == cs[k1]);
        }
    }
    let fl = cov_l(tl, tr, xa, es); let gl = cov_l(tl, tr, xa, es2);
    let fr = cov_r(tl, tr, xb, es); let gr = cov_r(tl, tr, xb, es2);
    assert forall|i: int| 0 <= i < tl.len() && #[trigger] gl(i) implies fl(i) by { }
    assert forall|i: int| 0 <= i < tr.len() && #[trigger] gr(i) implies fr(i) by { }
    let wl = if ent_l(e).is_some() { ent_l(e).unwrap() as int } else { -1 };
    let wr = if ent_r(e).is_some() { ent_r(e).unwrap() as int } else { -1 };
    if ent_l(e).is_some() { assert(fl(wl) && !gl(wl)); }
    if ent_r(e).is_some() { assert(fr(wr) && !gr(wr)); }
    lemma_icnt(fl, gl, tl.len() as int, wl);
    lemma_icnt(fr, gr, tr.len() as int, wr);
}

/// [C07] covering difference: the top entry (key x) is dropped together with everything below it
pub proof fn lemma_cd_skip<P: Prefix, L, R>(tl: Seq<Node<P, L>>, tr: Seq<Node<P, R>>, xa: Seq<bool>, xb: Seq<bool>, es: Seq<Ent>)
    requires ss_ok(tl, tr, xa, xb, es), es.len() > 0, no_only_r(es)
    ensures
        ss_ok(tl, tr, xa, xb, es.drop_last()), no_only_r(es.drop_last()),
        forall|n: int| #![trigger tlive(tl).contains(n)] rem_l(tl, tr, xa, es.drop_last(), n) == (rem_l(tl, tr, xa, es, n) && !pre(ent_key(tl, tr, es.last()), kb(tl, n))),
        0 <= ucnt(tl, tr, xa, xb, es.drop_last()) < ucnt(tl, tr, xa, xb, es),
{
    let e = es.last();
    let x = ent_key(tl, tr, e);
    let rest = es.drop_last();
    let cs = Seq::<Ent>::empty();
    assert(ents_ok(tl, tr, xa, xb, x, true, cs)) by { reveal(ents_ok); }
    assert(rest + cs =~= rest);
    lemma_stack_replace_ok(tl, tr, xa, xb, es, cs);
    lemma_ent_at(tl, tr, xa, xb, e);
    lemma_pre_refl(x);
    let top = es.len() - 1;
    assert(es[top] == e);
    assert forall|k: int| 0 <= k < rest.len() implies !((#[trigger] rest[k]) is OnlyR) by { assert(rest[k] == es[k]); }
    assert forall|k: Seq<bool>| #[trigger] kcov(tl, tr, rest, k) implies !pre(x, k) by {
        reveal(ents_ok);
        let j = choose|j: int| 0 <= j < rest.len() && pre(ent_key(tl, tr, #[trigger] rest[j]), k);
        assert(rest[j] == es[j]);
        assert(incomparable(ent_key(tl, tr, es[j]), ent_key(tl, tr, es[top])));
        if pre(x, k) { lemma_pre_comparable(ent_key(tl, tr, es[j]), x, k); }
    }
    let fl = cov_l(tl, tr, xa, es); let gl = cov_l(tl, tr, xa, rest);
    let fr = cov_r(tl, tr, xb, es); let gr = cov_r(tl, tr, xb, rest);
    assert forall|i: int| 0 <= i < tl.len() && #[trigger] gl(i) implies fl(i) by { }
    assert forall|i: int| 0 <= i < tr.len() && #[trigger] gr(i) implies fr(i) by { }
    let wl = if ent_l(e).is_some() { ent_l(e).unwrap() as int } else { -1 };
    let wr = if ent_r(e).is_some() { ent_r(e).unwrap() as int } else { -1 };
    assert(kcov(tl, tr, es, x));
    if ent_l(e).is_some() { assert(fl(wl) && !gl(wl)); }
    if ent_r(e).is_some() { assert(fr(wr) && !gr(wr)); }
    lemma_icnt(fl, gl, tl.len() as int, wl);
    lemma_icnt(fr, gr, tr.len() as int, wr);
}

/// inside the region described by cs, the only right-view node covering the key of cs[j] is the right node of cs[j] itself
pub proof fn lemma_between_d<P: Prefix, L, R>(tl: Seq<Node<P, L>>, tr: Seq<Node<P, R>>, xa: Seq<bool>, xb: Seq<bool>, z: Seq<bool>, st: bool, cs: Seq<Ent>, j: int)
    requires twf(tl), twf(tr), df_post(tl, tr, xa, xb, z, st, cs), 0 <= j < cs.len()
    ensures
        ent_ok(tl, tr, xa, xb, cs[j]), in_reg(z, st, ent_key(tl, tr, cs[j])),
        forall|m: int| #![trigger tlive(tr).contains(m)] vin(tr, xb, m) && pre(kb(tr, m), ent_key(tl, tr, cs[j])) && in_reg(z, st, kb(tr, m)) ==> ent_r(cs[j]).is_some() && ent_r(cs[j]).unwrap() as int == m,
{
    reveal(ents_ok); reveal(ents_cover_d);
    let kc = ent_key(tl, tr, cs[j]);
    lemma_ent_at(tl, tr, xa, xb, cs[j]);
    // every entry of a difference stack has a left-view node at or below its key
    let nj = match cs[j] { Ent::Both(l, _) => l as int, Ent::FirstL(l, _) => l as int, Ent::OnlyL(l) => l as int, Ent::FirstR(l, _) => l as int, Ent::OnlyR(_) => 0int };
    assert(!(cs[j] is OnlyR));
    assert(vin(tl, xa, nj) && pre(kc, kb(tl, nj))) by { lemma_pre_refl(kc); }
    assert forall|m: int| #![trigger tlive(tr).contains(m)] vin(tr, xb, m) && pre(kb(tr, m), kc) && in_reg(z, st, kb(tr, m)) implies ent_r(cs[j]).is_some() && ent_r(cs[j]).unwrap() as int == m by {
        lemma_pre_trans(kb(tr, m), kc, kb(tl, nj));
        assert(tlive(tl).contains(nj));
        let k1 = choose|k: int| 0 <= k < cs.len() && pre(ent_key(tl, tr, #[trigger] cs[k]), kb(tr, m));
        lemma_pre_trans(ent_key(tl, tr, cs[k1]), kb(tr, m), kc);
        if k1 < j { assert(incomparable(ent_key(tl, tr, cs[k1]), ent_key(tl, tr, cs[j]))); }
        if j < k1 { assert(incomparable(ent_key(tl, tr, cs[j]), ent_key(tl, tr, cs[k1]))); }
        lemma_pre_antisym(kb(tr, m), kc);
    }
}

/// [C08] right-view annotation of the entries pushed below a popped entry with key x and annotation lr
pub proof fn lemma_ann_child_d<'a, P: Prefix, L, R>(tl: Seq<Node<P, L>>, tr: Seq<Node<P, R>>, xa: Seq<bool>, xb: Seq<bool>, x: Seq<bool>, cs: Seq<Ent>, j: int, lr: Option<(&'a P, &'a R)>)
    requires twf(tl), twf(tr), df_post(tl, tr, xa, xb, x, true, cs), 0 <= j < cs.len(), vlpm(tr, xb, x, lr)
    ensures vlpm(tr, xb, ent_key(tl, tr, cs[j]), ann(tr, ent_r(cs[j]), lr))
{
    let kc = ent_key(tl, tr, cs[j]);
    lemma_between_d(tl, tr, xa, xb, x, true, cs, j);
    lemma_ent_at(tl, tr, xa, xb, cs[j]);
    assert forall|m: int| #![trigger tlive(tr).contains(m)] vin(tr, xb, m) && pre(kb(tr, m), kc) && !pre(kb(tr, m), x) implies spre(x, kb(tr, m)) by {
        lemma_pre_comparable(kb(tr, m), x, kc);
    }
    lemma_lpm_down(tr, xb, x, kc, lr, ent_r(cs[j]));
}

pub proof fn lemma_ann_init_d<P: Prefix, L, R>(tl: Seq<Node<P, L>>, tr: Seq<Node<P, R>>, xa: Seq<bool>, xb: Seq<bool>, cs: Seq<Ent>, j: int)
    requires twf(tl), twf(tr), df_post(tl, tr, xa, xb, Seq::<bool>::empty(), false, cs), 0 <= j < cs.len()
    ensures vlpm(tr, xb, ent_key(tl, tr, cs[j]), ann::<P, R>(tr, ent_r(cs[j]), None))
{
    let kc = ent_key(tl, tr, cs[j]);
    lemma_between_d(tl, tr, xa, xb, Seq::<bool>::empty(), false, cs, j);
    lemma_ent_at(tl, tr, xa, xb, cs[j]);
    lemma_lpm_init(tr, xb, kc, ent_r(cs[j]));
}

/// no entry of view (t, x) is stored strictly above key k
pub open spec fn nocov_above<P: Prefix, T>(t: Seq<Node<P, T>>, x: Seq<bool>, k: Seq<bool>) -> bool {
    forall|m: int| #![trigger tlive(t).contains(m)] vin(t, x, m) && spre(kb(t, m), k) ==> t[m].value.is_none()
}

/// [C07] covering difference: below a popped entry whose key is not covered, the pushed entries are not covered from strictly above either
pub proof fn lemma_nocov_child<P: Prefix, L, R>(tl: Seq<Node<P, L>>, tr: Seq<Node<P, R>>, xa: Seq<bool>, xb: Seq<bool>, x: Seq<bool>, cs: Seq<Ent>, j: int)
    requires
        twf(tl), twf(tr), df_post(tl, tr, xa, xb, x, true, cs), 0 <= j < cs.len(),
        nocov_above(tr, xb, x), !stored_in(tr, xb, x),
    ensures nocov_above(tr, xb, ent_key(tl, tr, cs[j]))
{
    let kc = ent_key(tl, tr, cs[j]);
    lemma_between_d(tl, tr, xa, xb, x, true, cs, j);
    lemma_ent_at(tl, tr, xa, xb, cs[j]);
    assert forall|m: int| #![trigger tlive(tr).contains(m)] vin(tr, xb, m) && spre(kb(tr, m), kc) implies tr[m].value.is_none() by {
        lemma_pre_comparable(kb(tr, m), x, kc);
        if spre(kb(tr, m), x) {
        } else if kb(tr, m) =~= x {
        } else {
            assert(spre(x, kb(tr, m)));
            assert(ent_r(cs[j]).is_some() && ent_r(cs[j]).unwrap() as int == m);
        }
    }
}

pub proof fn lemma_nocov_init<P: Prefix, L, R>(tl: Seq<Node<P, L>>, tr: Seq<Node<P, R>>, xa: Seq<bool>, xb: Seq<bool>, cs: Seq<Ent>, j: int)
    requires twf(tl), twf(tr), df_post(tl, tr, xa, xb, Seq::<bool>::empty(), false, cs), 0 <= j < cs.len()
    ensures nocov_above(tr, xb, ent_key(tl, tr, cs[j]))
{
    let kc = ent_key(tl, tr, cs[j]);
    lemma_between_d(tl, tr, xa, xb, Seq::<bool>::empty(), false, cs, j);
    lemma_ent_at(tl, tr, xa, xb, cs[j]);
    assert forall|m: int| #![trigger tlive(tr).contains(m)] vin(tr, xb, m) && spre(kb(tr, m), kc) implies tr[m].value.is_none() by {
        assert(ent_r(cs[j]).is_some() && ent_r(cs[j]).unwrap() as int == m);
    }
}

/// the popped entry e delivers its left node exactly when that node stores a value and the right view does not store the key
pub open spec fn d_selects<P: Prefix, L, R>(tl: Seq<Node<P, L>>, tr: Seq<Node<P, R>>, e: Ent) -> bool {
    ent_l(e).is_some() && tl[ent_l(e).unwrap() as int].value.is_some() && !(ent_r(e).is_some() && tr[ent_r(e).unwrap() as int].value.is_some())
}

/// [C07] from the stack step to the selection: the popped key is delivered iff it is selected
pub proof fn lemma_d_item<P: Prefix, L, R>(tl: Seq<Node<P, L>>, tr: Seq<Node<P, R>>, xa: Seq<bool>, xb: Seq<bool>, cov: bool, es0: Seq<Ent>, esb: Seq<Ent>, es2: Seq<Ent>)
    requires
        ss_ok(tl, tr, xa, xb, esb), esb.len() > 0,
        same_d(tl, tr, xa, xb, cov, es0, esb),
        yields_l(tl, tr, xa, esb, es2, ent_key(tl, tr, esb.last())),
        cov ==> nocov_above(tr, xb, ent_key(tl, tr, esb.last())),
    ensures
        d_selects(tl, tr, esb.last()) ==> yields_d(tl, tr, xa, xb, cov, es0, es2, ent_key(tl, tr, esb.last()))
            && dsel(tl, tr, xa, xb, cov, es0, ent_l(esb.last()).unwrap() as int) && kb(tl, ent_l(esb.last()).unwrap() as int) =~= ent_key(tl, tr, esb.last())
            && !stored_in(tr, xb, ent_key(tl, tr, esb.last())),
        !d_selects(tl, tr, esb.last()) ==> same_d(tl, tr, xa, xb, cov, es0, es2),
        ent_l(esb.last()).is_some() ==> ent_l(esb.last()).unwrap() < tl.len(),
        ent_r(esb.last()).is_some() ==> ent_r(esb.last()).unwrap() < tr.len(),
{
    let e = esb.last();
    let x = ent_key(tl, tr, e);
    assert(ent_ok(tl, tr, xa, xb, e)) by { reveal(ents_ok); assert(esb[esb.len() - 1] == e); }
    lemma_ent_at(tl, tr, xa, xb, e);
    lemma_pre_refl(x);
    assert(esb[esb.len() - 1] == e);
    assert(kcov(tl, tr, esb, x));
    // the right view stores x exactly when the entry's right node does
    let bst = ent_r(e).is_some() && tr[ent_r(e).unwrap() as int].value.is_some();
    if bst { assert(tlive(tr).contains(ent_r(e).unwrap() as int)); assert(stored_in(tr, xb, x)); }
    assert(stored_in(tr, xb, x) == bst);
    if cov {
        lemma_pre_refl(x);
        assert(covered_in(tr, xb, x) == bst) by {
            if covered_in(tr, xb, x) {
                let m = choose|m: int| #![trigger tlive(tr).contains(m)] vin(tr, xb, m) && pre(kb(tr, m), x) && tr[m].value.is_some();
                assert(kb(tr, m) =~= x);
            }
            if bst { assert(pre(kb(tr, ent_r(e).unwrap() as int), x)); }
        }
    }
    assert(excl(tr, xb, cov, x) == bst);
    if d_selects(tl, tr, e) {
        let l = ent_l(e).unwrap() as int;
        assert(tlive(tl).contains(l));
        assert(rem_l(tl, tr, xa, esb, l));
        assert(dsel(tl, tr, xa, xb, cov, esb, l) && dsel(tl, tr, xa, xb, cov, es0, l));
        assert forall|n: int| #![trigger tlive(tl).contains(n)] dsel(tl, tr, xa, xb, cov, es0, n) && !(kb(tl, n) =~= x) implies lex_lt(x, kb(tl, n)) by { assert(dsel(tl, tr, xa, xb, cov, esb, n)); }
        assert forall|n: int| #![trigger tlive(tl).contains(n)] dsel(tl, tr, xa, xb, cov, es2, n) == (dsel(tl, tr, xa, xb, cov, es0, n) && !(kb(tl, n) =~= x)) by {
            if tlive(tl).contains(n) { assert(dsel(tl, tr, xa, xb, cov, esb, n) == dsel(tl, tr, xa, xb, cov, es0, n)); }
        }
    } else {
        assert forall|n: int| #![trigger tlive(tl).contains(n)] dsel(tl, tr, xa, xb, cov, es2, n) == dsel(tl, tr, xa, xb, cov, es0, n) by {
            if tlive(tl).contains(n) {
                assert(dsel(tl, tr, xa, xb, cov, esb, n) == dsel(tl, tr, xa, xb, cov, es0, n));
                if vin(tl, xa, n) && kb(tl, n) =~= x { assert(ent_l(e).is_some() && ent_l(e).unwrap() as int == n); }
            }
        }
    }
}

/// [C07] covering difference: dropping an entry whose key is stored in the right view loses no selected entry
pub proof fn lemma_cd_skip_sel<P: Prefix, L, R>(tl: Seq<Node<P, L>>, tr: Seq<Node<P, R>>, xa: Seq<bool>, xb: Seq<bool>, es0: Seq<Ent>, esb: Seq<Ent>, es2: Seq<Ent>, x: Seq<bool>)
    requires
        same_d(tl, tr, xa, xb, true, es0, esb),
        stored_in(tr, xb, x),
        forall|n: int| #![trigger tlive(tl).contains(n)] rem_l(tl, tr, xa, es2, n) == (rem_l(tl, tr, xa, esb, n) && !pre(x, kb(tl, n))),
    ensures same_d(tl, tr, xa, xb, true, es0, es2)
{
    let m = choose|m: int| #![trigger tlive(tr).contains(m)] vin(tr, xb, m) && kb(tr, m) =~= x && tr[m].value.is_some();
    assert forall|n: int| #![trigger tlive(tl).contains(n)] dsel(tl, tr, xa, xb, true, es2, n) == dsel(tl, tr, xa, xb, true, es0, n) by {
        if tlive(tl).contains(n) {
            assert(dsel(tl, tr, xa, xb, true, esb, n) == dsel(tl, tr, xa, xb, true, es0, n));
            if pre(x, kb(tl, n)) { assert(pre(kb(tr, m), kb(tl, n))); assert(covered_in(tr, xb, kb(tl, n))); }
        }
    }
}

// ---- one-sided descent, mirrored: the right view's node r is strictly above the left view's node l (entry FirstR(l, r)) ----
// (mechanical mirror image of the lemma_fl_* family, generated by tools/mirror_setops.py)

/// consequences of the FirstL entry invariant used by all cases
pub proof fn lemma_fr_facts<P: Prefix, L, R>(tl: Seq<Node<P, L>>, tr: Seq<Node<P, R>>, xa: Seq<bool>, xb: Seq<bool>, l: usize, r: usize)
    requires twf(tl), twf(tr), ent_ok(tl, tr, xa, xb, Ent::FirstR(l, r))
    ensures
        step_bounds(tr, tlive(tr), r as int), tlive(tl).contains(l as int), l < tl.len(),
        forall|s: bool| #![trigger chd(tr, r as int, s)] chd(tr, r as int, s).is_some() ==> vin(tr, xb, chd(tr, r as int, s).unwrap() as int),
        // every left-view node strictly below l lies below the child of l on its side
        forall|n: int| #![trigger tlive(tr).contains(n)] vin(tr, xb, n) && spre(kb(tr, r as int), kb(tr, n)) ==>
            chd(tr, r as int, kb(tr, n)[kb(tr, r as int).len() as int]).is_some()
            && pre(kb(tr, chd(tr, r as int, kb(tr, n)[kb(tr, r as int).len() as int]).unwrap() as int), kb(tr, n)),
{
    let live = tlive(tr);
    lemma_twf_live(tr);
    lemma_live_bound(tl, l as int);
    lemma_pre_refl(kb(tr, r as int));
    lemma_step(tr, live, r as int, kb(tr, r as int));
    assert forall|s: bool| #![trigger chd(tr, r as int, s)] chd(tr, r as int, s).is_some() implies vin(tr, xb, chd(tr, r as int, s).unwrap() as int) by {
        lemma_pre_trans(xb, kb(tr, r as int), kb(tr, chd(tr, r as int, s).unwrap() as int));
    }
    assert forall|n: int| #![trigger tlive(tr).contains(n)] vin(tr, xb, n) && spre(kb(tr, r as int), kb(tr, n)) implies
            chd(tr, r as int, kb(tr, n)[kb(tr, r as int).len() as int]).is_some()
            && pre(kb(tr, chd(tr, r as int, kb(tr, n)[kb(tr, r as int).len() as int]).unwrap() as int), kb(tr, n)) by {
        lemma_desc(tr, live, r as int, n);
    }
}

/// l has no children: only the right view's node remains
pub proof fn lemma_fr_none<P: Prefix, L, R>(tl: Seq<Node<P, L>>, tr: Seq<Node<P, R>>, xa: Seq<bool>, xb: Seq<bool>, l: usize, r: usize)
    requires twf(tl), twf(tr), ent_ok(tl, tr, xa, xb, Ent::FirstR(l, r)), tr[r as int].left.is_none(), tr[r as int].right.is_none()
    ensures ni_post(tl, tr, xa, xb, kb(tr, r as int), true, s1(Ent::OnlyL(l)))
{
    reveal(ents_ok); reveal(ents_cover);
    lemma_fr_facts(tl, tr, xa, xb, l, r);
    let x = kb(tr, r as int);
    let es = s1(Ent::OnlyL(l));
    assert(es[0] == Ent::OnlyL(l));
    assert forall|n: int| #![trigger tlive(tr).contains(n)] vin(tr, xb, n) implies !spre(x, kb(tr, n)) by {
        if spre(x, kb(tr, n)) { assert(chd(tr, r as int, kb(tr, n)[x.len() as int]).is_some()); }
    }
    assert forall|n: int| #![trigger tlive(tr).contains(n)] vin(tr, xb, n) implies !pre(kb(tl, l as int), kb(tr, n)) by {
        if pre(kb(tl, l as int), kb(tr, n)) { assert(spre(x, kb(tr, n))); }
    }
    assert forall|m: int| #![trigger tlive(tl).contains(m)] vin(tl, xa, m) && spre(x, kb(tl, m)) implies exists|k: int| 0 <= k < es.len() && pre(ent_key(tl, tr, #[trigger] es[k]), kb(tl, m)) by {
        assert(pre(ent_key(tl, tr, es[0]), kb(tl, m)));
    }
}

/// l has exactly one child c: continue with (c, r) in the region strictly below l
pub proof fn lemma_fr_one<P: Prefix, L, R>(tl: Seq<Node<P, L>>, tr: Seq<Node<P, R>>, xa: Seq<bool>, xb: Seq<bool>, l: usize, r: usize, s: bool)
    requires twf(tl), twf(tr), ent_ok(tl, tr, xa, xb, Ent::FirstR(l, r)), chd(tr, r as int, s).is_some(), chd(tr, r as int, !s).is_none()
    ensures ni_pre(tl, tr, xa, xb, kb(tr, r as int), true, Some(l), chd(tr, r as int, s)), tlive(tr).contains(chd(tr, r as int, s).unwrap() as int)
{
    lemma_fr_facts(tl, tr, xa, xb, l, r);
    let x = kb(tr, r as int);
    let c = chd(tr, r as int, s).unwrap() as int;
    assert forall|n: int| #![trigger tlive(tr).contains(n)] vin(tr, xb, n) && spre(x, kb(tr, n)) implies pre(kb(tr, c), kb(tr, n)) by {
        assert(chd(tr, r as int, kb(tr, n)[x.len() as int]).is_some());
    }
    assert forall|m: int| #![trigger tlive(tl).contains(m)] vin(tl, xa, m) && spre(x, kb(tl, m)) implies pre(kb(tl, l as int), kb(tl, m)) by { }
}

/// l has two children; r lies on side s: first pair the child on that side with r in the half region x.push(s) ...
pub proof fn lemma_fr_two_pre<P: Prefix, L, R>(tl: Seq<Node<P, L>>, tr: Seq<Node<P, R>>, xa: Seq<bool>, xb: Seq<bool>, l: usize, r: usize, s: bool)
    requires
        twf(tl), twf(tr), ent_ok(tl, tr, xa, xb, Ent::FirstR(l, r)), chd(tr, r as int, s).is_some(), chd(tr, r as int, !s).is_some(),
        kb(tl, l as int)[kb(tr, r as int).len() as int] == s,
    ensures
        ni_pre(tl, tr, xa, xb, kb(tr, r as int).push(s), false, Some(l), chd(tr, r as int, s)),
        tlive(tr).contains(chd(tr, r as int, s).unwrap() as int), tlive(tr).contains(chd(tr, r as int, !s).unwrap() as int),
{
    lemma_fr_facts(tl, tr, xa, xb, l, r);
    let x = kb(tr, r as int);
    let zs = x.push(s);
    let c = chd(tr, r as int, s).unwrap() as int;
    assert forall|k: Seq<bool>| spre(x, k) && k[x.len() as int] == s implies pre(zs, k) by {
        assert forall|j: int| 0 <= j < zs.len() implies zs[j] == k[j] by { if j < x.len() { assert(zs[j] == x[j]); } }
    }
    assert forall|k: Seq<bool>| pre(zs, k) implies spre(x, k) && k[x.len() as int] == s by {
        assert(zs[x.len() as int] == s);
        assert forall|j: int| 0 <= j < x.len() implies x[j] == k[j] by { assert(zs[j] == x[j]); }
    }
    assert(pre(zs, kb(tr, c)));
    assert(pre(zs, kb(tl, l as int)));
    assert forall|n: int| #![trigger tlive(tr).contains(n)] vin(tr, xb, n) && pre(zs, kb(tr, n)) implies pre(kb(tr, c), kb(tr, n)) by {
        assert(spre(x, kb(tr, n)) && kb(tr, n)[x.len() as int] == s);
    }
    assert forall|m: int| #![trigger tlive(tl).contains(m)] vin(tl, xa, m) && pre(zs, kb(tl, m)) implies pre(kb(tl, l as int), kb(tl, m)) by {
        assert(spre(x, kb(tl, m)));
    }
}

/// the other child o of l (on side !s) owns a region without right-view nodes, ordered against the half region x.push(s)
pub proof fn lemma_fr_other<P: Prefix, L, R>(tl: Seq<Node<P, L>>, tr: Seq<Node<P, R>>, xa: Seq<bool>, xb: Seq<bool>, l: usize, r: usize, s: bool)
    requires
        twf(tl), twf(tr), ent_ok(tl, tr, xa, xb, Ent::FirstR(l, r)), chd(tr, r as int, s).is_some(), chd(tr, r as int, !s).is_some(),
        kb(tl, l as int)[kb(tr, r as int).len() as int] == s,
    ensures
        ent_ok(tl, tr, xa, xb, Ent::OnlyR(chd(tr, r as int, !s).unwrap())),
        spre(kb(tr, r as int), kb(tr, chd(tr, r as int, !s).unwrap() as int)),
        kb(tr, chd(tr, r as int, !s).unwrap() as int)[kb(tr, r as int).len() as int] == !s,
        forall|k: Seq<bool>| #[trigger] pre(kb(tr, r as int).push(s), k) ==> incomparable(kb(tr, chd(tr, r as int, !s).unwrap() as int), k)
            && (if s { lex_lt(kb(tr, chd(tr, r as int, !s).unwrap() as int), k) } else { lex_lt(k, kb(tr, chd(tr, r as int, !s).unwrap() as int)) }),
{
    lemma_fr_facts(tl, tr, xa, xb, l, r);
    let x = kb(tr, r as int);
    lemma_half_region(x, s);
    let o = chd(tr, r as int, !s).unwrap();
    let ko = kb(tr, o as int);
    assert forall|m: int| #![trigger tlive(tl).contains(m)] vin(tl, xa, m) implies !pre(ko, kb(tl, m)) by {
        if pre(ko, kb(tl, m)) {
            lemma_pre_trans(x, ko, kb(tl, m));
            assert(pre(kb(tl, l as int), kb(tl, m)));
            assert(kb(tl, m)[x.len() as int] == s);
            assert(kb(tl, m)[x.len() as int] == ko[x.len() as int]);
        }
    }
    assert forall|k: Seq<bool>| #[trigger] pre(x.push(s), k) implies incomparable(ko, k) && (if s { lex_lt(ko, k) } else { lex_lt(k, ko) }) by {
        if s { lemma_lex_children(x, ko, k); } else { lemma_lex_children(x, k, ko); }
    }
}

/// ... then add the other child as an OnlyL entry: on top (push) when it is the left child, at the bottom (insert 0) when it is the right one
pub proof fn lemma_fr_two_ok<P: Prefix, L, R>(tl: Seq<Node<P, L>>, tr: Seq<Node<P, R>>, xa: Seq<bool>, xb: Seq<bool>, l: usize, r: usize, s: bool, es1: Seq<Ent>)
    requires
        twf(tl), twf(tr), ent_ok(tl, tr, xa, xb, Ent::FirstR(l, r)), chd(tr, r as int, s).is_some(), chd(tr, r as int, !s).is_some(),
        kb(tl, l as int)[kb(tr, r as int).len() as int] == s,
        ents_ok(tl, tr, xa, xb, kb(tr, r as int).push(s), false, es1),
    ensures
        ents_ok(tl, tr, xa, xb, kb(tr, r as int), true, (if s { es1.push(Ent::OnlyR(chd(tr, r as int, false).unwrap())) } else { es1.insert(0, Ent::OnlyR(chd(tr, r as int, true).unwrap())) })),
{
    lemma_fr_other(tl, tr, xa, xb, l, r, s);
    reveal(ents_ok);
    let x = kb(tr, r as int);
    lemma_half_region(x, s);
    let zs = x.push(s);
    let o = chd(tr, r as int, !s).unwrap();
    let ko = kb(tr, o as int);
    let eo = Ent::OnlyR(o);
    let es = if s { es1.push(eo) } else { es1.insert(0, eo) };
    assert forall|k: int| 0 <= k < es.len() implies ent_ok(tl, tr, xa, xb, #[trigger] es[k]) && in_reg(x, true, ent_key(tl, tr, es[k])) by {
        if s {
            if k < es1.len() { assert(es[k] == es1[k]); assert(pre(zs, ent_key(tl, tr, es1[k]))); }
        } else {
            if k > 0 { assert(es[k] == es1[k - 1]); assert(pre(zs, ent_key(tl, tr, es1[k - 1]))); }
        }
    }
    assert forall|k: int, j: int| 0 <= k < j < es.len() implies
            incomparable(ent_key(tl, tr, #[trigger] es[k]), ent_key(tl, tr, #[trigger] es[j])) && lex_lt(ent_key(tl, tr, es[j]), ent_key(tl, tr, es[k])) by {
        if s {
            if j < es1.len() { assert(es[k] == es1[k] && es[j] == es1[j]); }
            else { assert(es[k] == es1[k]); assert(pre(zs, ent_key(tl, tr, es1[k]))); }
        } else {
            if k > 0 { assert(es[k] == es1[k - 1] && es[j] == es1[j - 1]); }
            else { assert(es[j] == es1[j - 1]); assert(pre(zs, ent_key(tl, tr, es1[j - 1]))); }
        }
    }
}

pub proof fn lemma_fr_two_cover<P: Prefix, L, R>(tl: Seq<Node<P, L>>, tr: Seq<Node<P, R>>, xa: Seq<bool>, xb: Seq<bool>, l: usize, r: usize, s: bool, es1: Seq<Ent>)
    requires
        twf(tl), twf(tr), ent_ok(tl, tr, xa, xb, Ent::FirstR(l, r)), chd(tr, r as int, s).is_some(), chd(tr, r as int, !s).is_some(),
        kb(tl, l as int)[kb(tr, r as int).len() as int] == s,
        ents_cover(tl, tr, xa, xb, kb(tr, r as int).push(s), false, es1),
    ensures
        ents_cover(tl, tr, xa, xb, kb(tr, r as int), true, (if s { es1.push(Ent::OnlyR(chd(tr, r as int, false).unwrap())) } else { es1.insert(0, Ent::OnlyR(chd(tr, r as int, true).unwrap())) })),
{
    lemma_fr_facts(tl, tr, xa, xb, l, r);
    reveal(ents_cover);
    let x = kb(tr, r as int);
    lemma_half_region(x, s);
    let zs = x.push(s);
    let o = chd(tr, r as int, !s).unwrap();
    let eo = Ent::OnlyR(o);
    let es = if s { es1.push(eo) } else { es1.insert(0, eo) };
    assert forall|n: int| #![trigger tlive(tr).contains(n)] vin(tr, xb, n) && spre(x, kb(tr, n)) implies exists|k: int| 0 <= k < es.len() && pre(ent_key(tl, tr, #[trigger] es[k]), kb(tr, n)) by {
        if kb(tr, n)[x.len() as int] == s {
            assert(pre(zs, kb(tr, n)));
            let k1 = choose|k: int| 0 <= k < es1.len() && pre(ent_key(tl, tr, #[trigger] es1[k]), kb(tr, n));
            if s { assert(es[k1] == es1[k1]); } else { assert(es[k1 + 1] == es1[k1]); }
        } else {
            assert(chd(tr, r as int, kb(tr, n)[x.len() as int]).is_some());
            if s { assert(es[es1.len() as int] == eo); assert(pre(ent_key(tl, tr, es[es1.len() as int]), kb(tr, n))); }
            else { assert(es[0] == eo); assert(pre(ent_key(tl, tr, es[0]), kb(tr, n))); }
        }
    }
    assert forall|m: int| #![trigger tlive(tl).contains(m)] vin(tl, xa, m) && spre(x, kb(tl, m)) implies exists|k: int| 0 <= k < es.len() && pre(ent_key(tl, tr, #[trigger] es[k]), kb(tl, m)) by {
        assert(pre(kb(tl, l as int), kb(tl, m)));
        assert(kb(tl, m)[x.len() as int] == s);
        assert(pre(zs, kb(tl, m)));
        let k1 = choose|k: int| 0 <= k < es1.len() && pre(ent_key(tl, tr, #[trigger] es1[k]), kb(tl, m));
        if s { assert(es[k1] == es1[k1]); } else { assert(es[k1 + 1] == es1[k1]); }
    }
}

pub proof fn lemma_fr_two_post<P: Prefix, L, R>(tl: Seq<Node<P, L>>, tr: Seq<Node<P, R>>, xa: Seq<bool>, xb: Seq<bool>, l: usize, r: usize, s: bool, es1: Seq<Ent>)
    requires
        twf(tl), twf(tr), ent_ok(tl, tr, xa, xb, Ent::FirstR(l, r)), chd(tr, r as int, s).is_some(), chd(tr, r as int, !s).is_some(),
        kb(tl, l as int)[kb(tr, r as int).len() as int] == s,
        ni_post(tl, tr, xa, xb, kb(tr, r as int).push(s), false, es1),
    ensures
        s ==> ni_post(tl, tr, xa, xb, kb(tr, r as int), true, es1.push(Ent::OnlyR(chd(tr, r as int, false).unwrap()))),
        !s ==> ni_post(tl, tr, xa, xb, kb(tr, r as int), true, es1.insert(0, Ent::OnlyR(chd(tr, r as int, true).unwrap()))),
{
    lemma_fr_two_ok(tl, tr, xa, xb, l, r, s, es1);
    lemma_fr_two_cover(tl, tr, xa, xb, l, r, s, es1);
}

/// all cases of next_indices_first_l at once, phrased over what the function computes:
/// the sub-call's result es1 is characterised by the postcondition of next_indices
pub open spec fn fr_cases<P: Prefix, L, R>(tl: Seq<Node<P, L>>, tr: Seq<Node<P, R>>, xa: Seq<bool>, xb: Seq<bool>, l: usize, r: usize) -> bool {
    let x = kb(tr, r as int);
    let cl = chd(tr, r as int, false); let cr = chd(tr, r as int, true);
    let s = kb(tl, l as int)[x.len() as int];
    &&& (cl.is_none() && cr.is_none() ==> ni_post(tl, tr, xa, xb, x, true, s1(Ent::OnlyL(l))))
    &&& (cl.is_none() && cr.is_some() ==> ni_pre(tl, tr, xa, xb, x, true, Some(l), cr))
    &&& (cl.is_some() && cr.is_none() ==> ni_pre(tl, tr, xa, xb, x, true, Some(l), cl))
    &&& (cl.is_some() && cr.is_some() ==> ni_pre(tl, tr, xa, xb, x.push(s), false, Some(l), chd(tr, r as int, s))
            && (forall|es1: Seq<Ent>| #[trigger] ni_post(tl, tr, xa, xb, x.push(s), false, es1) ==>
                    (s ==> ni_post(tl, tr, xa, xb, x, true, es1.push(Ent::OnlyR(cl.unwrap()))))
                    && (!s ==> ni_post(tl, tr, xa, xb, x, true, es1.insert(0, Ent::OnlyR(cr.unwrap()))))))
}

pub proof fn lemma_fr_cases<P: Prefix, L, R>(tl: Seq<Node<P, L>>, tr: Seq<Node<P, R>>, xa: Seq<bool>, xb: Seq<bool>, l: usize, r: usize)
    requires twf(tl), twf(tr), ent_ok(tl, tr, xa, xb, Ent::FirstR(l, r))
    ensures fr_cases(tl, tr, xa, xb, l, r)
{
    let x = kb(tr, r as int);
    let cl = chd(tr, r as int, false); let cr = chd(tr, r as int, true);
    let s = kb(tl, l as int)[x.len() as int];
    if cl.is_none() && cr.is_none() { lemma_fr_none(tl, tr, xa, xb, l, r); }
    if cl.is_none() && cr.is_some() { lemma_fr_one(tl, tr, xa, xb, l, r, true); }
    if cl.is_some() && cr.is_none() { lemma_fr_one(tl, tr, xa, xb, l, r, false); }
    if cl.is_some() && cr.is_some() {
        lemma_fr_two_pre(tl, tr, xa, xb, l, r, s);
        assert forall|es1: Seq<Ent>| #[trigger] ni_post(tl, tr, xa, xb, x.push(s), false, es1) implies
                    (s ==> ni_post(tl, tr, xa, xb, x, true, es1.push(Ent::OnlyR(cl.unwrap()))))
                    && (!s ==> ni_post(tl, tr, xa, xb, x, true, es1.insert(0, Ent::OnlyR(cr.unwrap())))) by {
            lemma_fr_two_post(tl, tr, xa, xb, l, r, s, es1);
        }
    }
}


// ---- ix one-sided descent, mirrored (entry FirstR(l, r)); generated by tools/mirror_setops.py ----

/// two children, r on side s: only the half region on r's side can hold common keys
pub proof fn lemma_ixr_two<P: Prefix, L, R>(tl: Seq<Node<P, L>>, tr: Seq<Node<P, R>>, xa: Seq<bool>, xb: Seq<bool>, l: usize, r: usize, s: bool, es1: Seq<Ent>)
    requires
        twf(tl), twf(tr), ent_ok(tl, tr, xa, xb, Ent::FirstR(l, r)),
        kb(tl, l as int)[kb(tr, r as int).len() as int] == s,
        ix_post(tl, tr, xa, xb, kb(tr, r as int).push(s), false, es1),
    ensures ix_post(tl, tr, xa, xb, kb(tr, r as int), true, es1)
{
    reveal(ents_ok); reveal(ents_cover2);
    let x = kb(tr, r as int);
    lemma_half_region(x, s);
    assert forall|k: int| 0 <= k < es1.len() implies in_reg(x, true, ent_key(tl, tr, #[trigger] es1[k])) by {
        assert(pre(x.push(s), ent_key(tl, tr, es1[k])));
    }
    assert forall|n: int, m: int| #![trigger tlive(tr).contains(n), tlive(tl).contains(m)]
        vin(tr, xb, n) && vin(tl, xa, m) && kb(tr, n) =~= kb(tl, m) && spre(x, kb(tr, n)) implies exists|k: int| 0 <= k < es1.len() && pre(ent_key(tl, tr, #[trigger] es1[k]), kb(tr, n)) by {
        lemma_pre_refl(x);
        assert(pre(kb(tl, l as int), kb(tl, m)));
        assert(kb(tl, m)[x.len() as int] == s);
        assert(pre(x.push(s), kb(tr, n)));
    }
}

pub open spec fn ixr_cases<P: Prefix, L, R>(tl: Seq<Node<P, L>>, tr: Seq<Node<P, R>>, xa: Seq<bool>, xb: Seq<bool>, l: usize, r: usize) -> bool {
    let x = kb(tr, r as int);
    let cl = chd(tr, r as int, false); let cr = chd(tr, r as int, true);
    let s = kb(tl, l as int)[x.len() as int];
    &&& (cl.is_none() && cr.is_none() ==> ix_post(tl, tr, xa, xb, x, true, Seq::<Ent>::empty()))
    &&& (cl.is_none() && cr.is_some() ==> ni_pre(tl, tr, xa, xb, x, true, Some(l), cr))
    &&& (cl.is_some() && cr.is_none() ==> ni_pre(tl, tr, xa, xb, x, true, Some(l), cl))
    &&& (cl.is_some() && cr.is_some() ==> ni_pre(tl, tr, xa, xb, x.push(s), false, Some(l), chd(tr, r as int, s))
            && (forall|es1: Seq<Ent>| #[trigger] ix_post(tl, tr, xa, xb, x.push(s), false, es1) ==> ix_post(tl, tr, xa, xb, x, true, es1)))
}

pub proof fn lemma_ixr_cases<P: Prefix, L, R>(tl: Seq<Node<P, L>>, tr: Seq<Node<P, R>>, xa: Seq<bool>, xb: Seq<bool>, l: usize, r: usize)
    requires twf(tl), twf(tr), ent_ok(tl, tr, xa, xb, Ent::FirstR(l, r))
    ensures ixr_cases(tl, tr, xa, xb, l, r)
{
    let x = kb(tr, r as int);
    let cl = chd(tr, r as int, false); let cr = chd(tr, r as int, true);
    let s = kb(tl, l as int)[x.len() as int];
    if cl.is_none() && cr.is_none() {
        lemma_fr_none(tl, tr, xa, xb, l, r);
        // no left-view node strictly below l: nothing in common
        reveal(ents_ok); reveal(ents_cover2);
        lemma_fr_facts(tl, tr, xa, xb, l, r);
        assert forall|n: int, m: int| #![trigger tlive(tr).contains(n), tlive(tl).contains(m)]
            vin(tr, xb, n) && vin(tl, xa, m) && kb(tr, n) =~= kb(tl, m) && spre(x, kb(tr, n)) implies false by {
            assert(chd(tr, r as int, kb(tr, n)[x.len() as int]).is_some());
        }
    }
    if cl.is_none() && cr.is_some() { lemma_fr_one(tl, tr, xa, xb, l, r, true); }
    if cl.is_some() && cr.is_none() { lemma_fr_one(tl, tr, xa, xb, l, r, false); }
    if cl.is_some() && cr.is_some() {
        lemma_fr_two_pre(tl, tr, xa, xb, l, r, s);
        assert forall|es1: Seq<Ent>| #[trigger] ix_post(tl, tr, xa, xb, x.push(s), false, es1) implies ix_post(tl, tr, xa, xb, x, true, es1) by {
            lemma_ixr_two(tl, tr, xa, xb, l, r, s, es1);
        }
    }
}

