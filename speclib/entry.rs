// ---------------------------------------------------------------------------------------------
// speclib/entry.rs -- handle invariants and composition lemmas for the Entry API
// ---------------------------------------------------------------------------------------------

/// a node that differs from `a` only in its value, which is present
pub open spec fn node_value_only<P: Prefix, T>(a: Node<P, T>, b: Node<P, T>) -> bool {
    b.prefix == a.prefix && b.left == a.left && b.right == a.right && b.value.is_some()
}

/// mf is mm with slot n replaced by nf
pub open spec fn map_upd_node<P: Prefix, T>(mm: PrefixMap<P, T>, mf: PrefixMap<P, T>, n: int, nf: Node<P, T>) -> bool {
    mf.tab() == mm.tab().update(n, nf) && mf.free@ == mm.free@ && mf.count == mm.count
}

/// invariant of a VacantEntry (established by `entry`, required by `_insert`)
pub open spec fn vac_ok<P: Prefix, T>(m: PrefixMap<P, T>, prefix: P, idx: usize, d: DirectionForInsert<P>) -> bool {
    m.wf() && m.tab().len() + 2 <= usize::MAX
        && m.live().contains(idx as int) && pre(kb(m.tab(), idx as int), prefix.bits())
        && dir_ins_spec(m.tab(), idx as int, prefix.bits(), d)
        && !(d is Enter)
        && (d is Reached ==> m.tab()[idx as int].value.is_none())
}

/// what `_insert` promises about the map once the returned node reference is released
pub open spec fn vac_ins_post<P: Prefix, T>(m0: PrefixMap<P, T>, mf: PrefixMap<P, T>, p: P, r0: Node<P, T>, rf: Node<P, T>) -> bool {
    node_value_only(r0, rf) ==>
        mf.wf_shape() && mf.wf_free() && mf.wf_count()
        && mf.content() =~= m0.content().insert(p.bits(), (p, rf.value.unwrap()))
        && grow_ok(m0, mf)
        && (m0.canon() ==> mf.canon())
}

/// overwriting the value of a stored node keeps everything else
pub proof fn lemma_value_overwrite<P: Prefix, T>(mm: PrefixMap<P, T>, n: int)
    requires mm.wf(), stored(mm.tab(), mm.live(), n)
    ensures
        forall|mf: PrefixMap<P, T>, nf: Node<P, T>| #[trigger] map_upd_node(mm, mf, n, nf) && node_value_only(mm.tab()[n], nf) ==>
            mf.wf_shape() && mf.wf_free() && mf.wf_count()
            && mf.content() =~= mm.content().insert(kb(mm.tab(), n), (nf.prefix, nf.value.unwrap()))
            && (mm.canon() ==> mf.canon())
{
    assert forall|mf: PrefixMap<P, T>, nf: Node<P, T>| #[trigger] map_upd_node(mm, mf, n, nf) && node_value_only(mm.tab()[n], nf) implies
            mf.wf_shape() && mf.wf_free() && mf.wf_count()
            && mf.content() =~= mm.content().insert(kb(mm.tab(), n), (nf.prefix, nf.value.unwrap()))
            && (mm.canon() ==> mf.canon()) by {
        lemma_glob(mm.tab(), mm.live());
        assert(frame_nodes(mm.tab(), mf.tab(), n, n, n));
        lemma_insert_reached(mm, mf, n, nf.prefix, nf.value.unwrap());
        assert(nf.prefix.bits() == kb(mm.tab(), n));
    }
}

/// composition used at the end of the three new-node arms of `_insert`
pub proof fn lemma_vac_ins<P: Prefix, T>(m0: PrefixMap<P, T>, mm: PrefixMap<P, T>, n: int, p: P, v: T)
    requires
        m0.wf(),
        mm.wf_shape(), mm.wf_free(), mm.wf_count(), // [SHAPE,FREE,COUNT]
        ins_content(m0, mm, p, v), // [C01,C18]
        grow_ok(m0, mm), // [C16]
        m0.canon() ==> mm.canon(), // [C15]
        mm.live().contains(n), mm.tab()[n].prefix == p, mm.tab()[n].value == Some(v), // [C01,C18,SHAPE]
    ensures
        forall|mf: PrefixMap<P, T>, nf: Node<P, T>| map_upd_node(mm, mf, n, nf) ==> #[trigger] vac_ins_post(m0, mf, p, mm.tab()[n], nf)
{
    lemma_value_overwrite(mm, n);
    assert forall|mf: PrefixMap<P, T>, nf: Node<P, T>| map_upd_node(mm, mf, n, nf) implies #[trigger] vac_ins_post(m0, mf, p, mm.tab()[n], nf) by {
        if node_value_only(mm.tab()[n], nf) {
            assert(mf.content() =~= mm.content().insert(p.bits(), (p, nf.value.unwrap())));
            assert(mf.content() =~= m0.content().insert(p.bits(), (p, nf.value.unwrap())));
            assert(mf.tab().len() == mm.tab().len());
        }
    }
}

/// the Reached arm of `_insert`: the node reference is still borrowed when the function returns
pub open spec fn reached_upd<P: Prefix, T>(m0: PrefixMap<P, T>, mf: PrefixMap<P, T>, idx: int, nf: Node<P, T>) -> bool {
    mf.tab() == m0.tab().update(idx, nf) && mf.free@ == m0.free@ && mf.count as int == m0.count as int + 1
}

pub proof fn lemma_vac_reached<P: Prefix, T>(m0: PrefixMap<P, T>, idx: int, p: P, r0: Node<P, T>)
    requires
        m0.wf(), m0.live().contains(idx), kb(m0.tab(), idx) =~= p.bits(), m0.tab()[idx].value.is_none(),
        r0.prefix == p, r0.left == m0.tab()[idx].left, r0.right == m0.tab()[idx].right,
    ensures
        forall|mf: PrefixMap<P, T>, nf: Node<P, T>| reached_upd(m0, mf, idx, nf) ==> #[trigger] vac_ins_post(m0, mf, p, r0, nf)
{
    assert forall|mf: PrefixMap<P, T>, nf: Node<P, T>| reached_upd(m0, mf, idx, nf) implies #[trigger] vac_ins_post(m0, mf, p, r0, nf) by {
        if node_value_only(r0, nf) {
            lemma_glob(m0.tab(), m0.live());
            assert(frame_nodes(m0.tab(), mf.tab(), idx, idx, idx));
            lemma_insert_reached(m0, mf, idx, p, nf.value.unwrap());
        }
    }
}

/// postcondition of `PrefixMap::entry`
pub open spec fn occ_entry_post<P: Prefix, T>(m0: PrefixMap<P, T>, mf: PrefixMap<P, T>, prefix: P, n0: Node<P, T>, nf: Node<P, T>, eprefix: P, c0: usize, cf: usize) -> bool {
    let q = prefix.bits();
    let i = node_of(m0.tab(), m0.live(), q);
    has_key(m0.tab(), m0.live(), q)
        && n0 == m0.tab()[i] && n0.value.is_some() && eprefix == prefix
        && c0 == m0.count && c0 >= 1
        && mf.tab() == m0.tab().update(i, nf) && mf.count == cf && mf.free@ == m0.free@
}

pub proof fn lemma_entry_occupied<P: Prefix, T>(m0: PrefixMap<P, T>, idx: int, q: Seq<bool>)
    requires m0.wf(), m0.live().contains(idx), kb(m0.tab(), idx) =~= q, m0.tab()[idx].value.is_some()
    ensures has_key(m0.tab(), m0.live(), q), node_of(m0.tab(), m0.live(), q) == idx, m0.count >= 1
{
    lemma_content_at(m0.tab(), m0.live(), idx);
    assert(kb(m0.tab(), idx) == q);
    lemma_nval_pos(m0.tab(), m0.live(), m0.tab().len() as int, idx);
}

pub proof fn lemma_entry_vacant<P: Prefix, T>(m0: PrefixMap<P, T>, prefix: P, idx: usize, d: DirectionForInsert<P>)
    requires vac_ok(m0, prefix, idx, d)
    ensures !m0.content().dom().contains(prefix.bits())
{
    lemma_get_step(m0.tab(), m0.live(), idx as int, prefix.bits());
}

/// map-level meaning of a value-only / value+representation update through an occupied handle
pub proof fn lemma_occ_update<P: Prefix, T>(m0: PrefixMap<P, T>, mf: PrefixMap<P, T>, q: Seq<bool>, nf: Node<P, T>)
    requires
        m0.wf(), has_key(m0.tab(), m0.live(), q),
        mf.tab() == m0.tab().update(node_of(m0.tab(), m0.live(), q), nf), mf.free@ == m0.free@,
        nf.left == m0.tab()[node_of(m0.tab(), m0.live(), q)].left, nf.right == m0.tab()[node_of(m0.tab(), m0.live(), q)].right,
        nf.prefix.bits() =~= q,
        nf.value.is_none() ==> nf.prefix == m0.tab()[node_of(m0.tab(), m0.live(), q)].prefix,
        mf.count as int == m0.count as int - (if nf.value.is_none() { 1int } else { 0int }),
    ensures
        mf.wf_shape(), mf.wf_free(), mf.wf_count(),
        nf.value.is_some() ==> mf.content() =~= m0.content().insert(q, (nf.prefix, nf.value.unwrap())),
        nf.value.is_none() ==> mf.content() =~= m0.content().remove(q),
        shape_same(m0.tab(), mf.tab()),
        nf.value.is_some() && m0.canon() ==> mf.canon(), // [C15]
{
    let i = node_of(m0.tab(), m0.live(), q);
    lemma_content_dom(m0.tab(), m0.live(), q);
    lemma_glob(m0.tab(), m0.live());
    assert(frame_nodes(m0.tab(), mf.tab(), i, i, i));
    assert(nf.prefix.bits() == q);
    if nf.value.is_some() {
        lemma_insert_reached(m0, mf, i, nf.prefix, nf.value.unwrap());
        assert forall|j: int| 0 <= j < m0.tab().len() implies #[trigger] same_shape_at(m0.tab(), mf.tab(), j) by { }
    } else {
        lemma_rkt_final(m0, mf, i, q, m0.tab()[i].value);
    }
}

/// map-level result of a vacant-entry insertion whose node reference has been released with value w
pub open spec fn vac_done<P: Prefix, T>(m0: PrefixMap<P, T>, mf: PrefixMap<P, T>, p: P, w: T) -> bool {
    mf.wf_shape() && mf.wf_free() && mf.wf_count()
        && mf.content() =~= m0.content().insert(p.bits(), (p, w))
        && grow_ok(m0, mf)
        && (m0.canon() ==> mf.canon())
}

/// [C13] what a mutable exact/longest-match lookup promises about the map once the returned value
/// reference (which pointed at the node storing key k) is released holding w
pub open spec fn wt_post<P: Prefix, T>(m0: PrefixMap<P, T>, mf: PrefixMap<P, T>, k: Seq<bool>, w: T) -> bool {
    let i = node_of(m0.tab(), m0.live(), k);
    let nf = Node { prefix: m0.tab()[i].prefix, value: Some(w), left: m0.tab()[i].left, right: m0.tab()[i].right };
    map_upd_node(m0, mf, i, nf)
        && mf.wf_shape() && mf.wf_free() && (m0.wf_count() ==> mf.wf_count())
        && mf.content() =~= m0.content().insert(k, (m0.content()[k].0, w))
        && shape_same(m0.tab(), mf.tab())
        && (m0.canon() ==> mf.canon())
}

pub proof fn lemma_wt<P: Prefix, T>(m0: PrefixMap<P, T>, n: int)
    requires m0.wf_shape(), m0.wf_free(), stored(m0.tab(), m0.live(), n)
    ensures
        node_of(m0.tab(), m0.live(), kb(m0.tab(), n)) == n,
        m0.content().dom().contains(kb(m0.tab(), n)),
        m0.content()[kb(m0.tab(), n)] == (m0.tab()[n].prefix, m0.tab()[n].value.unwrap()),
        forall|mf: PrefixMap<P, T>, w: T| #[trigger] map_upd_node(m0, mf, n, Node { prefix: m0.tab()[n].prefix, value: Some(w), left: m0.tab()[n].left, right: m0.tab()[n].right })
            ==> wt_post(m0, mf, kb(m0.tab(), n), w),
{
    let t0 = m0.tab(); let l0 = m0.live();
    lemma_content_at(t0, l0, n);
    assert forall|mf: PrefixMap<P, T>, w: T| #[trigger] map_upd_node(m0, mf, n, Node { prefix: t0[n].prefix, value: Some(w), left: t0[n].left, right: t0[n].right })
            implies wt_post(m0, mf, kb(t0, n), w) by {
        let nf = Node { prefix: t0[n].prefix, value: Some(w), left: t0[n].left, right: t0[n].right };
        let t1 = mf.tab();
        assert(mf.live() =~= l0);
        assert forall|j: int| 0 <= j < t0.len() implies #[trigger] same_shape_at(t0, t1, j) by { }
        lemma_same_shape_wf(t0, l0, t1);
        // content: value overwrite at a stored node
        assert(stored(t1, l0, n) && kb(t1, n) =~= kb(t0, n));
        assert forall|i: int| #[trigger] stored(t0, l0, i) && !(kb(t0, i) =~= kb(t0, n)) implies
            stored(t1, l0, i) && kb(t1, i) == kb(t0, i) && t1[i].prefix == t0[i].prefix && t1[i].value == t0[i].value by { }
        assert forall|i: int| #[trigger] stored(t1, l0, i) && !(kb(t1, i) =~= kb(t0, n)) implies stored(t0, l0, i) && kb(t0, i) == kb(t1, i) by { }
        assert(upd_rel(t0, l0, t1, l0, kb(t0, n), Some((t0[n].prefix, w))));
        lemma_content_upd(t0, l0, t1, l0, kb(t0, n), Some((t0[n].prefix, w)));
        if m0.wf_count() {
            assert forall|i: int| 0 <= i implies ind(t0, l0, i) == ind(t1, l0, i) by { }
            lemma_nval_ext(t0, l0, t0.len() as int, t1, l0, t1.len() as int, -1);
        }
        if m0.canon() {
            assert forall|j: int| #![trigger l0.contains(j)] l0.contains(j) && j != 0 && t1[j].value.is_none() implies t1[j].left.is_some() && t1[j].right.is_some() by {
                if j != n { assert(t1[j] == t0[j]); }
            }
        }
    }
}
