// ---------------------------------------------------------------------------------------------
// speclib/iter.rs -- explicit-stack pre-order traversal (C03, C10, C11, C13): the stack denotes a
// list of pairwise incomparable key regions in lexicographically descending order (top = smallest)
// ---------------------------------------------------------------------------------------------

/// n is covered by some stack member
pub open spec fn covered<P: Prefix, T>(t: Seq<Node<P, T>>, st: Seq<usize>, n: int) -> bool {
    exists|k: int| 0 <= k < st.len() && pre(kb(t, #[trigger] st[k] as int), kb(t, n))
}

/// entries still to be yielded
pub open spec fn remaining<P: Prefix, T>(t: Seq<Node<P, T>>, live: ISet<int>, st: Seq<usize>, n: int) -> bool {
    stored(t, live, n) && covered(t, st, n)
}

#[verifier::opaque]
pub open spec fn stack_ok<P: Prefix, T>(t: Seq<Node<P, T>>, live: ISet<int>, st: Seq<usize>) -> bool {
    &&& (forall|k: int| 0 <= k < st.len() ==> live.contains(#[trigger] st[k] as int))
    &&& (forall|k: int, l: int| 0 <= k < l < st.len() ==>
            incomparable(kb(t, #[trigger] st[k] as int), kb(t, #[trigger] st[l] as int)) && lex_lt(kb(t, st[l] as int), kb(t, st[k] as int)))
}

// ---- lexicographic order facts ----

/// first position where two incomparable strings differ
pub open spec fn diff_at(a: Seq<bool>, b: Seq<bool>, k: int) -> bool {
    0 <= k < a.len() && k < b.len() && a[k] != b[k] && (forall|j: int| 0 <= j < k ==> a[j] == b[j])
}

pub proof fn lemma_diff_exists(a: Seq<bool>, b: Seq<bool>, i: int) -> (k: int)
    requires incomparable(a, b), 0 <= i <= a.len(), i <= b.len(), forall|j: int| 0 <= j < i ==> a[j] == b[j]
    ensures diff_at(a, b, k)
    decreases a.len() - i
{
    if i < a.len() && i < b.len() {
        if a[i] != b[i] { i } else { lemma_diff_exists(a, b, i + 1) }
    } else {
        // one of them is exhausted: it would be a prefix of the other
        if i == a.len() { assert(pre(a, b)); } else { assert(pre(b, a)); }
        0
    }
}

/// for incomparable strings the lexicographic order is decided by the first differing bit
pub proof fn lemma_lex_incomparable(a: Seq<bool>, b: Seq<bool>, k: int)
    requires incomparable(a, b), diff_at(a, b, k)
    ensures lex_lt(a, b) == (!a[k] && b[k]), lex_lt(b, a) == (a[k] && !b[k])
{
    reveal(lex_lt);
    if lex_lt(a, b) {
        let k2 = choose|k2: int| #![trigger a[k2]] 0 <= k2 < a.len() && k2 < b.len() && !a[k2] && b[k2] && (forall|j: int| 0 <= j < k2 ==> a[j] == b[j]);
        if k2 < k { assert(a[k2] == b[k2]); } else if k < k2 { assert(a[k] == b[k]); }
    }
    if lex_lt(b, a) {
        let k2 = choose|k2: int| #![trigger b[k2]] 0 <= k2 < b.len() && k2 < a.len() && !b[k2] && a[k2] && (forall|j: int| 0 <= j < k2 ==> b[j] == a[j]);
        if k2 < k { assert(a[k2] == b[k2]); } else if k < k2 { assert(a[k] == b[k]); }
    }
    if !a[k] && b[k] {
        assert(0 <= k < a.len() && k < b.len() && !a[k] && b[k] && (forall|j: int| 0 <= j < k ==> a[j] == b[j]));
    }
    if a[k] && !b[k] {
        assert(0 <= k < b.len() && k < a.len() && !b[k] && a[k] && (forall|j: int| 0 <= j < k ==> b[j] == a[j]));
    }
}

/// order and incomparability of two regions carry over to all their members
pub proof fn lemma_lex_regions(a: Seq<bool>, b: Seq<bool>, x: Seq<bool>, y: Seq<bool>)
    requires incomparable(a, b), lex_lt(a, b), pre(a, x), pre(b, y)
    ensures incomparable(x, y), lex_lt(x, y)
{
    let k = lemma_diff_exists(a, b, 0);
    lemma_lex_incomparable(a, b, k);
    assert(x[k] == a[k] && y[k] == b[k]);
    assert(diff_at(x, y, k)) by {
        assert forall|j: int| 0 <= j < k implies x[j] == y[j] by { assert(x[j] == a[j] && y[j] == b[j]); }
    }
    assert(incomparable(x, y)) by {
        if pre(x, y) { assert(x[k] == y[k]); }
        if pre(y, x) { assert(y[k] == x[k]); }
    }
    lemma_lex_incomparable(x, y, k);
}

/// the two children of a node: left region before right region
pub proof fn lemma_lex_children(p: Seq<bool>, l: Seq<bool>, r: Seq<bool>)
    requires spre(p, l), spre(p, r), !l[p.len() as int], r[p.len() as int]
    ensures incomparable(l, r), lex_lt(l, r)
{
    let k = p.len() as int;
    assert(diff_at(l, r, k)) by {
        assert forall|j: int| 0 <= j < k implies l[j] == r[j] by { assert(l[j] == p[j] && r[j] == p[j]); }
    }
    assert(incomparable(l, r)) by {
        if pre(l, r) { assert(l[k] == r[k]); }
        if pre(r, l) { assert(r[k] == l[k]); }
    }
    lemma_lex_incomparable(l, r, k);
}

/// a proper prefix sorts before its extensions
pub proof fn lemma_lex_spre(a: Seq<bool>, b: Seq<bool>)
    requires spre(a, b)
    ensures lex_lt(a, b)
{
    reveal(lex_lt);
}

pub proof fn lemma_lex_irrefl(a: Seq<bool>)
    ensures !lex_lt(a, a)
{
    reveal(lex_lt);
}

// ---- termination measure: number of live nodes covered by the stack ----

pub open spec fn cov_ind<P: Prefix, T>(t: Seq<Node<P, T>>, live: ISet<int>, st: Seq<usize>, i: int) -> int {
    if live.contains(i) && covered(t, st, i) { 1 } else { 0 }
}

pub open spec fn cov_cnt<P: Prefix, T>(t: Seq<Node<P, T>>, live: ISet<int>, st: Seq<usize>, n: int) -> int
    decreases n
{
    if n <= 0 { 0 } else { cov_cnt(t, live, st, n - 1) + cov_ind(t, live, st, n - 1) }
}

pub proof fn lemma_cov_cnt_diff<P: Prefix, T>(t: Seq<Node<P, T>>, live: ISet<int>, st: Seq<usize>, st2: Seq<usize>, n: int, k: int)
    requires forall|i: int| 0 <= i < n && i != k ==> cov_ind(t, live, st, i) == cov_ind(t, live, st2, i)
    ensures
        cov_cnt(t, live, st2, n) - cov_cnt(t, live, st, n) == (if 0 <= k < n { cov_ind(t, live, st2, k) - cov_ind(t, live, st, k) } else { 0 }),
        cov_cnt(t, live, st, n) >= 0,
    decreases n
{
    if n > 0 { lemma_cov_cnt_diff(t, live, st, st2, n - 1, k); }
}

// ---- one step of the walk ----

/// the stack after popping cur = st.last() and pushing its right, then its left child
pub open spec fn next_stack<P: Prefix, T>(t: Seq<Node<P, T>>, st: Seq<usize>) -> Seq<usize> {
    let cur = st.last() as int;
    let rest = st.drop_last();
    let a = if t[cur].right.is_some() { rest.push(t[cur].right.unwrap()) } else { rest };
    if t[cur].left.is_some() { a.push(t[cur].left.unwrap()) } else { a }
}

pub proof fn lemma_walk_step<P: Prefix, T>(t: Seq<Node<P, T>>, live: ISet<int>, st: Seq<usize>, st2: Seq<usize>)
    requires twf_live(t, live), stack_ok(t, live, st), st.len() > 0, st2 =~= next_stack(t, st)
    ensures
        stack_ok(t, live, st2),
        live.contains(st.last() as int), st.last() < t.len(),
        // what is covered afterwards: everything covered before except the popped node itself
        forall|n: int| live.contains(n) ==> (#[trigger] covered(t, st2, n) == (covered(t, st, n) && n != st.last())),
        covered(t, st, st.last() as int),
        // the popped node is the smallest of everything that was covered
        forall|n: int| live.contains(n) && #[trigger] covered(t, st, n) && n != st.last() ==> lex_lt(kb(t, st.last() as int), kb(t, n)),
        cov_cnt(t, live, st2, t.len() as int) < cov_cnt(t, live, st, t.len() as int),
        cov_cnt(t, live, st2, t.len() as int) >= 0,
{
    reveal(stack_ok);
    let cur = st.last() as int;
    let rest = st.drop_last();
    assert(live.contains(st[st.len() - 1] as int));
    lemma_step(t, live, cur, kb(t, cur));
    lemma_pre_refl(kb(t, cur));
    let kc = kb(t, cur);
    // members of st2
    assert forall|k: int| 0 <= k < st2.len() implies live.contains(#[trigger] st2[k] as int)
        && (k < rest.len() ==> st2[k] == st[k]) && (k >= rest.len() ==> spre(kc, kb(t, st2[k] as int))) by {
        if k < rest.len() { assert(st2[k] == st[k]); assert(live.contains(st[k] as int)); }
    }
    assert forall|k: int, l: int| 0 <= k < l < st2.len() implies
        incomparable(kb(t, #[trigger] st2[k] as int), kb(t, #[trigger] st2[l] as int)) && lex_lt(kb(t, st2[l] as int), kb(t, st2[k] as int)) by {
        let a = kb(t, st2[k] as int); let b = kb(t, st2[l] as int);
        if l < rest.len() {
            assert(st2[k] == st[k] && st2[l] == st[l]);
        } else if k < rest.len() {
            assert(st2[k] == st[k]);
            assert(incomparable(kb(t, st[k] as int), kb(t, st[st.len() - 1] as int)) && lex_lt(kb(t, st[st.len() - 1] as int), kb(t, st[k] as int)));
            lemma_pre_refl(a);
            lemma_lex_regions(kc, a, b, a);
        } else {
            // k = right child, l = left child
            assert(t[cur].right.is_some() && t[cur].left.is_some());
            assert(st2[k] == t[cur].right.unwrap() && st2[l] == t[cur].left.unwrap());
            assert(chd(t, cur, true) == t[cur].right && chd(t, cur, false) == t[cur].left);
            lemma_lex_children(kc, b, a);
        }
    }
    // coverage
    assert forall|n: int| live.contains(n) implies (#[trigger] covered(t, st2, n) == (covered(t, st, n) && n != cur)) by {
        if covered(t, st2, n) {
            let k = choose|k: int| 0 <= k < st2.len() && pre(kb(t, #[trigger] st2[k] as int), kb(t, n));
            if k < rest.len() {
                assert(st2[k] == st[k]);
                assert(pre(kb(t, st[k] as int), kb(t, n)));
                if n == cur {
                    assert(incomparable(kb(t, st[k] as int), kb(t, st[st.len() - 1] as int)));
                }
            } else {
                lemma_pre_trans(kc, kb(t, st2[k] as int), kb(t, n));
                assert(pre(kb(t, st[st.len() - 1] as int), kb(t, n)));
            }
        }
        if covered(t, st, n) && n != cur {
            let k = choose|k: int| 0 <= k < st.len() && pre(kb(t, #[trigger] st[k] as int), kb(t, n));
            if k < rest.len() {
                assert(st2[k] == st[k]);
                assert(pre(kb(t, st2[k] as int), kb(t, n)));
            } else {
                if kc =~= kb(t, n) { lemma_uniq(t, live, cur, n); }
                assert(spre(kc, kb(t, n)));
                lemma_desc(t, live, cur, n);
                let side = kb(t, n)[kc.len() as int];
                let ch = chd(t, cur, side).unwrap();
                if side {
                    if t[cur].left.is_some() { assert(st2[st2.len() - 2] == ch); } else { assert(st2[st2.len() - 1] == ch); }
                } else {
                    assert(st2[st2.len() - 1] == ch);
                }
            }
        }
    }
    assert(pre(kb(t, st[st.len() - 1] as int), kb(t, cur)));
    assert forall|n: int| live.contains(n) && #[trigger] covered(t, st, n) && n != cur implies lex_lt(kc, kb(t, n)) by {
        let k = choose|k: int| 0 <= k < st.len() && pre(kb(t, #[trigger] st[k] as int), kb(t, n));
        if k < rest.len() {
            assert(incomparable(kb(t, st[k] as int), kb(t, st[st.len() - 1] as int)) && lex_lt(kb(t, st[st.len() - 1] as int), kb(t, st[k] as int)));
            lemma_lex_regions(kc, kb(t, st[k] as int), kc, kb(t, n));
        } else {
            if kc =~= kb(t, n) { lemma_uniq(t, live, cur, n); }
            lemma_lex_spre(kc, kb(t, n));
        }
    }
    // measure
    assert forall|i: int| 0 <= i < t.len() && i != cur implies cov_ind(t, live, st, i) == cov_ind(t, live, st2, i) by {
        if live.contains(i) { assert(covered(t, st2, i) == (covered(t, st, i) && i != cur)); }
    }
    lemma_cov_cnt_diff(t, live, st, st2, t.len() as int, cur);
    assert(covered(t, st2, cur) == (covered(t, st, cur) && cur != cur));
    lemma_cov_cnt_diff(t, live, st2, st2, t.len() as int, -1);
}

/// a one-element stack is well formed
pub proof fn lemma_stack_single<P: Prefix, T>(t: Seq<Node<P, T>>, live: ISet<int>, st: Seq<usize>)
    requires st.len() <= 1, st.len() == 1 ==> live.contains(st[0] as int)
    ensures stack_ok(t, live, st)
{
    reveal(stack_ok);
}

/// the whole-map stack [0] covers every live node
pub proof fn lemma_root_covers<P: Prefix, T>(t: Seq<Node<P, T>>, live: ISet<int>, st: Seq<usize>, n: int)
    requires twf_live(t, live), st.len() == 1, st[0] == 0, live.contains(n)
    ensures covered(t, st, n)
{
    lemma_root(t, live, kb(t, n));
    assert(pre(kb(t, st[0] as int), kb(t, n)));
}

/// an empty stack covers nothing
pub proof fn lemma_empty_covers<P: Prefix, T>(t: Seq<Node<P, T>>, st: Seq<usize>, n: int)
    requires st.len() == 0
    ensures !covered(t, st, n)
{
}

// ---- iterator-level contract (Iter / IterMut / IntoIter share it) ----

pub open spec fn it_ok<'a, P: Prefix, T>(tb: Option<&'a Table<P, T>>, st: Seq<usize>) -> bool {
    match tb {
        None => st.len() == 0,
        Some(x) => twf(x.0@) && stack_ok(x.0@, tlive(x.0@), st),
    }
}

pub open spec fn it_measure<'a, P: Prefix, T>(tb: Option<&'a Table<P, T>>, st: Seq<usize>) -> int {
    match tb {
        None => 0,
        Some(x) => cov_cnt(x.0@, tlive(x.0@), st, x.0@.len() as int),
    }
}

/// node n is yielded by this step: smallest remaining entry, removed from the remaining set
pub open spec fn yields<P: Prefix, T>(t: Seq<Node<P, T>>, live: ISet<int>, st0: Seq<usize>, st1: Seq<usize>, n: int) -> bool {
    remaining(t, live, st0, n)
        && (forall|m: int| #[trigger] remaining(t, live, st0, m) && m != n ==> lex_lt(kb(t, n), kb(t, m)))
        && (forall|m: int| #[trigger] remaining(t, live, st1, m) == (remaining(t, live, st0, m) && m != n))
}

/// [C03] one call of `next`
pub open spec fn next_spec<'a, P: Prefix, T>(tb: Option<&'a Table<P, T>>, st0: Seq<usize>, st1: Seq<usize>, r: Option<(&P, &T)>) -> bool {
    match tb {
        None => r.is_none() && st1.len() == 0,
        Some(x) => {
            let t = x.0@; let live = tlive(t);
            match r {
                Some(e) => exists|n: int| #[trigger] yields(t, live, st0, st1, n) && *e.0 == t[n].prefix && *e.1 == t[n].value.unwrap(),
                None => (forall|m: int| !#[trigger] remaining(t, live, st0, m)) && st1.len() == 0,
            }
        },
    }
}

/// loop invariant of `next`: only value-less nodes have been skipped so far
pub open spec fn skipped_only<P: Prefix, T>(t: Seq<Node<P, T>>, live: ISet<int>, st0: Seq<usize>, st: Seq<usize>) -> bool {
    forall|m: int| #[trigger] remaining(t, live, st, m) == remaining(t, live, st0, m)
}

/// one loop iteration of `next` (cur = st.last() popped, children pushed)
pub proof fn lemma_next_iter<P: Prefix, T>(t: Seq<Node<P, T>>, st0: Seq<usize>, st: Seq<usize>, st2: Seq<usize>)
    requires twf(t), stack_ok(t, tlive(t), st), skipped_only(t, tlive(t), st0, st), st.len() > 0, st2 =~= next_stack(t, st)
    ensures
        stack_ok(t, tlive(t), st2),
        st.last() < t.len(),
        t[st.last() as int].value.is_some() ==> yields(t, tlive(t), st0, st2, st.last() as int),
        t[st.last() as int].value.is_none() ==> skipped_only(t, tlive(t), st0, st2),
        0 <= cov_cnt(t, tlive(t), st2, t.len() as int) < cov_cnt(t, tlive(t), st, t.len() as int),
{
    let live = tlive(t);
    lemma_twf_live(t);
    lemma_walk_step(t, live, st, st2);
    let cur = st.last() as int;
    assert forall|m: int| #[trigger] remaining(t, live, st2, m) == (remaining(t, live, st, m) && m != cur) by {
        if live.contains(m) { assert(covered(t, st2, m) == (covered(t, st, m) && m != cur)); }
    }
    if t[cur].value.is_some() {
        assert(remaining(t, live, st, cur));
        assert(remaining(t, live, st0, cur));
        assert forall|m: int| #[trigger] remaining(t, live, st0, m) && m != cur implies lex_lt(kb(t, cur), kb(t, m)) by {
            assert(remaining(t, live, st, m));
            assert(covered(t, st, m));
        }
        assert forall|m: int| #[trigger] remaining(t, live, st2, m) == (remaining(t, live, st0, m) && m != cur) by {
            assert(remaining(t, live, st, m) == remaining(t, live, st0, m));
        }
    } else {
        assert forall|m: int| #[trigger] remaining(t, live, st2, m) == remaining(t, live, st0, m) by {
            assert(remaining(t, live, st, m) == remaining(t, live, st0, m));
        }
    }
}

/// loop exit of `next`: nothing remains
pub proof fn lemma_next_done<P: Prefix, T>(t: Seq<Node<P, T>>, st0: Seq<usize>, st: Seq<usize>)
    requires skipped_only(t, tlive(t), st0, st), st.len() == 0
    ensures forall|m: int| !#[trigger] remaining(t, tlive(t), st0, m)
{
    assert forall|m: int| !#[trigger] remaining(t, tlive(t), st0, m) by {
        assert(remaining(t, tlive(t), st, m) == remaining(t, tlive(t), st0, m));
    }
}

// ---- key / value projections of next_spec ----

pub open spec fn next_key_spec<'a, P: Prefix, T>(tb: Option<&'a Table<P, T>>, st0: Seq<usize>, st1: Seq<usize>, r: Option<&P>) -> bool {
    match tb {
        None => r.is_none() && st1.len() == 0,
        Some(x) => {
            let t = x.0@; let live = tlive(t);
            match r {
                Some(e) => exists|n: int| #[trigger] yields(t, live, st0, st1, n) && *e == t[n].prefix,
                None => (forall|m: int| !#[trigger] remaining(t, live, st0, m)) && st1.len() == 0,
            }
        },
    }
}

pub open spec fn next_val_spec<'a, P: Prefix, T>(tb: Option<&'a Table<P, T>>, st0: Seq<usize>, st1: Seq<usize>, r: Option<&T>) -> bool {
    match tb {
        None => r.is_none() && st1.len() == 0,
        Some(x) => {
            let t = x.0@; let live = tlive(t);
            match r {
                Some(e) => exists|n: int| #[trigger] yields(t, live, st0, st1, n) && *e == t[n].value.unwrap(),
                None => (forall|m: int| !#[trigger] remaining(t, live, st0, m)) && st1.len() == 0,
            }
        },
    }
}

/// a freshly created traversal starting at node `start` yields exactly the stored entries covered by kb(start)
pub open spec fn iter_from<'a, P: Prefix, T>(tbl: &'a Table<P, T>, it_table: Option<&'a Table<P, T>>, st: Seq<usize>, start: int) -> bool {
    let t = tbl.0@;
    it_table == Some(tbl) && st =~= seq![start as usize] && it_ok(it_table, st)
        && (forall|n: int| #[trigger] remaining(t, tlive(t), st, n) == (stored(t, tlive(t), n) && pre(kb(t, start), kb(t, n))))
}

pub proof fn lemma_iter_from<P: Prefix, T>(tbl: &Table<P, T>, st: Seq<usize>, start: int)
    requires twf(tbl.0@), tlive(tbl.0@).contains(start), st =~= seq![start as usize], 0 <= start <= usize::MAX
    ensures iter_from(tbl, Some(tbl), st, start)
{
    let t = tbl.0@;
    lemma_stack_single(t, tlive(t), st);
    assert forall|n: int| #[trigger] remaining(t, tlive(t), st, n) == (stored(t, tlive(t), n) && pre(kb(t, start), kb(t, n))) by {
        if pre(kb(t, start), kb(t, n)) { assert(pre(kb(t, st[0] as int), kb(t, n))); }
    }
}

/// the whole-map traversal: every stored entry remains
pub proof fn lemma_iter_all<P: Prefix, T>(m: PrefixMap<P, T>, st: Seq<usize>)
    requires m.wf_shape(), st =~= seq![0usize]
    ensures
        twf(m.tab()), tlive(m.tab()) =~= m.live(),
        iter_from(&m.table, Some(&m.table), st, 0),
        forall|n: int| #[trigger] remaining(m.tab(), tlive(m.tab()), st, n) == stored(m.tab(), m.live(), n),
{
    let t = m.tab();
    lemma_tlive(t, m.live());
    lemma_root(t, m.live(), Seq::<bool>::empty());
    lemma_iter_from(&m.table, st, 0);
    assert forall|n: int| #[trigger] remaining(t, tlive(t), st, n) == stored(t, m.live(), n) by {
        if stored(t, m.live(), n) { lemma_root_covers(t, m.live(), st, n); }
    }
}

// ---- children(q): start stack (C10) ----

/// st is the start stack for the sub-trie selected by q: its single member's region holds exactly the live nodes covered by q
pub open spec fn start_for<P: Prefix, T>(t: Seq<Node<P, T>>, live: ISet<int>, q: Seq<bool>, st: Seq<usize>) -> bool {
    st.len() <= 1
        && (st.len() == 1 ==> live.contains(st[0] as int)
                && (forall|n: int| #![trigger live.contains(n)] live.contains(n) ==> (pre(q, kb(t, n)) == pre(kb(t, st[0] as int), kb(t, n)))))
        && (st.len() == 0 ==> (forall|n: int| #![trigger live.contains(n)] live.contains(n) ==> !pre(q, kb(t, n))))
}

pub proof fn lemma_start_reached<P: Prefix, T>(t: Seq<Node<P, T>>, live: ISet<int>, q: Seq<bool>, idx: int, st: Seq<usize>)
    requires live.contains(idx), kb(t, idx) =~= q, st =~= seq![idx as usize], 0 <= idx <= usize::MAX
    ensures start_for(t, live, q, st)
{
    assert(kb(t, st[0] as int) == q);
}

pub proof fn lemma_start_child<P: Prefix, T>(t: Seq<Node<P, T>>, live: ISet<int>, q: Seq<bool>, idx: int, st: Seq<usize>)
    requires
        twf_live(t, live), live.contains(idx), pre(kb(t, idx), q), !(kb(t, idx) =~= q),
        chd(t, idx, next_bit(kb(t, idx), q)).is_some(),
        pre(q, kb(t, chd(t, idx, next_bit(kb(t, idx), q)).unwrap() as int)),
        st =~= seq![chd(t, idx, next_bit(kb(t, idx), q)).unwrap()],
    ensures start_for(t, live, q, st)
{
    lemma_step(t, live, idx, q);
    let c = chd(t, idx, next_bit(kb(t, idx), q)).unwrap() as int;
    assert forall|n: int| #![trigger live.contains(n)] live.contains(n) implies (pre(q, kb(t, n)) == pre(kb(t, st[0] as int), kb(t, n))) by {
        lemma_region_same(t, live, idx, q, n);
    }
}

pub proof fn lemma_start_none<P: Prefix, T>(t: Seq<Node<P, T>>, live: ISet<int>, q: Seq<bool>, idx: int, st: Seq<usize>)
    requires
        twf_live(t, live), live.contains(idx), pre(kb(t, idx), q), !(kb(t, idx) =~= q),
        chd(t, idx, next_bit(kb(t, idx), q)).is_none()
            || (!pre(q, kb(t, chd(t, idx, next_bit(kb(t, idx), q)).unwrap() as int)) && !pre(kb(t, chd(t, idx, next_bit(kb(t, idx), q)).unwrap() as int), q)),
        st.len() == 0,
    ensures start_for(t, live, q, st)
{
    assert forall|n: int| #![trigger live.contains(n)] live.contains(n) implies !pre(q, kb(t, n)) by {
        lemma_region_empty(t, live, idx, q, n);
    }
}

/// an iterator started on start_for(q) yields exactly the stored entries covered by q
pub proof fn lemma_children_iter<P: Prefix, T>(tbl: &Table<P, T>, q: Seq<bool>, st: Seq<usize>)
    requires twf(tbl.0@), start_for(tbl.0@, tlive(tbl.0@), q, st)
    ensures
        it_ok(Some(tbl), st),
        forall|n: int| #[trigger] remaining(tbl.0@, tlive(tbl.0@), st, n) == (stored(tbl.0@, tlive(tbl.0@), n) && pre(q, kb(tbl.0@, n))),
{
    let t = tbl.0@; let live = tlive(t);
    lemma_stack_single(t, live, st);
    assert forall|n: int| #[trigger] remaining(t, live, st, n) == (stored(t, live, n) && pre(q, kb(t, n))) by {
        if live.contains(n) {
            if st.len() == 1 {
                if pre(kb(t, st[0] as int), kb(t, n)) { assert(covered(t, st, n)); }
            }
        }
    }
}

// ---- cover(q): lazy walk along the path to q (C09) ----

/// stored node n is still to be yielded by a Cover whose position is `idx`
pub open spec fn pending<P: Prefix, T>(t: Seq<Node<P, T>>, live: ISet<int>, idx: Option<usize>, q: Seq<bool>, n: int) -> bool {
    stored(t, live, n) && pre(kb(t, n), q) && (idx.is_some() ==> spre(kb(t, idx.unwrap() as int), kb(t, n)))
}

pub open spec fn cover_ok<P: Prefix, T>(t: Seq<Node<P, T>>, idx: Option<usize>, q: Seq<bool>) -> bool {
    twf(t) && (idx.is_some() ==> tlive(t).contains(idx.unwrap() as int) && pre(kb(t, idx.unwrap() as int), q))
}

/// [C09] node n is yielded: it is the shortest pending entry, and afterwards exactly the longer ones are pending
pub open spec fn cover_yields<P: Prefix, T>(t: Seq<Node<P, T>>, live: ISet<int>, idx0: Option<usize>, idx1: Option<usize>, q: Seq<bool>, n: int) -> bool {
    pending(t, live, idx0, q, n)
        && (forall|m: int| #[trigger] pending(t, live, idx0, q, m) && m != n ==> kb(t, n).len() < kb(t, m).len())
        && (forall|m: int| #[trigger] pending(t, live, idx1, q, m) == (pending(t, live, idx0, q, m) && m != n))
}

pub open spec fn cover_next_spec<P: Prefix, T>(t: Seq<Node<P, T>>, idx0: Option<usize>, idx1: Option<usize>, q: Seq<bool>, r: Option<(&P, &T)>) -> bool {
    let live = tlive(t);
    match r {
        Some(e) => exists|n: int| #[trigger] cover_yields(t, live, idx0, idx1, q, n) && *e.0 == t[n].prefix && *e.1 == t[n].value.unwrap(),
        None => (forall|m: int| !#[trigger] pending(t, live, idx0, q, m)) && (forall|m: int| !#[trigger] pending(t, live, idx1, q, m)),
    }
}

/// first call: position None -> Some(0)
pub proof fn lemma_cover_first<P: Prefix, T>(t: Seq<Node<P, T>>, q: Seq<bool>)
    requires twf(t)
    ensures
        t.len() >= 1, tlive(t).contains(0), pre(kb(t, 0), q),
        t[0].value.is_some() ==> cover_yields(t, tlive(t), None, Some(0usize), q, 0),
        t[0].value.is_none() ==> (forall|m: int| #[trigger] pending(t, tlive(t), Some(0usize), q, m) == pending(t, tlive(t), None, q, m)),
{
    let live = tlive(t);
    lemma_twf_live(t);
    lemma_root(t, live, q);
    assert forall|m: int| live.contains(m) && m != 0 implies spre(kb(t, 0), kb(t, m)) by {
        if kb(t, m).len() == 0 { lemma_uniq(t, live, 0, m); }
    }
    if t[0].value.is_some() {
        assert(pending(t, live, None, q, 0));
        assert forall|m: int| #[trigger] pending(t, live, Some(0usize), q, m) == (pending(t, live, None, q, m) && m != 0) by { }
    } else {
        assert forall|m: int| #[trigger] pending(t, live, Some(0usize), q, m) == pending(t, live, None, q, m) by { }
    }
}

/// one step from position i along the path to q
pub proof fn lemma_cover_step<P: Prefix, T>(t: Seq<Node<P, T>>, q: Seq<bool>, i: usize)
    requires twf(t), tlive(t).contains(i as int), pre(kb(t, i as int), q)
    ensures
        step_bounds(t, tlive(t), i as int),
        path_ends(t, i as int, q) ==> (forall|m: int| !#[trigger] pending(t, tlive(t), Some(i), q, m)),
{
    let live = tlive(t);
    let idx = i as int;
    lemma_twf_live(t);
    lemma_step(t, live, idx, q);
    if path_ends(t, idx, q) {
        assert forall|m: int| !#[trigger] pending(t, live, Some(i), q, m) by {
            if pending(t, live, Some(i), q, m) { assert(on_path_below(t, live, idx, q, m)); }
        }
    }
}

/// the walk enters the child c of i
pub proof fn lemma_cover_enter<P: Prefix, T>(t: Seq<Node<P, T>>, q: Seq<bool>, i: usize, c: usize)
    requires twf(t), tlive(t).contains(i as int), pre(kb(t, i as int), q), !path_ends(t, i as int, q), c as int == path_next(t, i as int, q)
    ensures
        tlive(t).contains(c as int), pre(kb(t, c as int), q), c < t.len(),
        t[c as int].value.is_some() ==> cover_yields(t, tlive(t), Some(i), Some(c), q, c as int),
        t[c as int].value.is_none() ==> (forall|m: int| #[trigger] pending(t, tlive(t), Some(c), q, m) == pending(t, tlive(t), Some(i), q, m)),
{
    let live = tlive(t);
    let idx = i as int;
    let cc = c as int;
    lemma_twf_live(t);
    lemma_step(t, live, idx, q);
    assert(live.contains(cc));
    assert forall|m: int| #[trigger] pending(t, live, Some(i), q, m) implies pre(kb(t, cc), kb(t, m)) by {
        assert(on_path_below(t, live, idx, q, m));
    }
    assert forall|m: int| #[trigger] pending(t, live, Some(c), q, m) == (pending(t, live, Some(i), q, m) && m != cc) by {
        if pending(t, live, Some(i), q, m) && m != cc {
            if kb(t, m) =~= kb(t, cc) { lemma_uniq(t, live, m, cc); }
        }
        if pending(t, live, Some(c), q, m) {
            lemma_pre_trans(kb(t, idx), kb(t, cc), kb(t, m));
        }
    }
    if t[cc].value.is_some() {
        assert(pending(t, live, Some(i), q, cc));
        assert forall|m: int| #[trigger] pending(t, live, Some(i), q, m) && m != cc implies kb(t, cc).len() < kb(t, m).len() by {
            if kb(t, m) =~= kb(t, cc) { lemma_uniq(t, live, m, cc); }
        }
    } else {
        assert forall|m: int| #[trigger] pending(t, live, Some(c), q, m) == pending(t, live, Some(i), q, m) by { }
    }
}

/// transitivity helpers for the loop of Cover::next
pub proof fn lemma_cover_chain<P: Prefix, T>(t: Seq<Node<P, T>>, q: Seq<bool>, i0: Option<usize>, i1: Option<usize>, i2: Option<usize>)
    requires
        forall|m: int| #[trigger] pending(t, tlive(t), i1, q, m) == pending(t, tlive(t), i0, q, m),
        forall|m: int| #[trigger] pending(t, tlive(t), i2, q, m) == pending(t, tlive(t), i1, q, m),
    ensures forall|m: int| #[trigger] pending(t, tlive(t), i2, q, m) == pending(t, tlive(t), i0, q, m)
{
    assert forall|m: int| #[trigger] pending(t, tlive(t), i2, q, m) == pending(t, tlive(t), i0, q, m) by {
        assert(pending(t, tlive(t), i1, q, m) == pending(t, tlive(t), i0, q, m));
    }
}

pub proof fn lemma_cover_yield_chain<P: Prefix, T>(t: Seq<Node<P, T>>, q: Seq<bool>, i0: Option<usize>, i1: Option<usize>, i2: Option<usize>, n: int)
    requires
        forall|m: int| #[trigger] pending(t, tlive(t), i1, q, m) == pending(t, tlive(t), i0, q, m),
        cover_yields(t, tlive(t), i1, i2, q, n),
    ensures cover_yields(t, tlive(t), i0, i2, q, n)
{
    let live = tlive(t);
    assert(pending(t, live, i1, q, n) == pending(t, live, i0, q, n));
    assert forall|m: int| #[trigger] pending(t, live, i0, q, m) && m != n implies kb(t, n).len() < kb(t, m).len() by {
        assert(pending(t, live, i1, q, m) == pending(t, live, i0, q, m));
    }
    assert forall|m: int| #[trigger] pending(t, live, i2, q, m) == (pending(t, live, i0, q, m) && m != n) by {
        assert(pending(t, live, i1, q, m) == pending(t, live, i0, q, m));
    }
}

pub proof fn lemma_cover_none_chain<P: Prefix, T>(t: Seq<Node<P, T>>, q: Seq<bool>, i0: Option<usize>, i1: Option<usize>)
    requires
        forall|m: int| #[trigger] pending(t, tlive(t), i1, q, m) == pending(t, tlive(t), i0, q, m),
        forall|m: int| !#[trigger] pending(t, tlive(t), i1, q, m),
    ensures forall|m: int| !#[trigger] pending(t, tlive(t), i0, q, m)
{
    assert forall|m: int| !#[trigger] pending(t, tlive(t), i0, q, m) by {
        assert(pending(t, tlive(t), i1, q, m) == pending(t, tlive(t), i0, q, m));
    }
}

// ---- consuming iteration (IntoIter owns the arena and empties the nodes it yields) ----

/// t is the arena t0 in which only nodes that are no longer covered by the stack may have been emptied
pub open spec fn into_rel<P: Prefix, T>(t0: Seq<Node<P, T>>, t: Seq<Node<P, T>>, st: Seq<usize>) -> bool {
    twf(t0) && t.len() == t0.len() && stack_ok(t0, tlive(t0), st)
        && (forall|n: int| #![trigger t[n]] tlive(t0).contains(n) && covered(t0, st, n) ==> t[n] == t0[n])
}

/// [C03] one call of IntoIter::next, relative to any original arena t0 that the state is related to
pub open spec fn into_next_spec<P: Prefix, T>(t0: Seq<Node<P, T>>, st0: Seq<usize>, st1: Seq<usize>, r: Option<(P, T)>) -> bool {
    let live = tlive(t0);
    match r {
        Some(e) => exists|n: int| #[trigger] yields(t0, live, st0, st1, n) && e.0 == t0[n].prefix && e.1 == t0[n].value.unwrap(),
        None => (forall|m: int| !#[trigger] remaining(t0, live, st0, m)) && st1.len() == 0,
    }
}

/// one loop iteration of IntoIter::next for a fixed original arena
pub proof fn lemma_into_iter<P: Prefix, T>(t0: Seq<Node<P, T>>, st_entry: Seq<usize>, t: Seq<Node<P, T>>, st: Seq<usize>, t2: Seq<Node<P, T>>, st2: Seq<usize>)
    requires
        into_rel(t0, t, st), skipped_only(t0, tlive(t0), st_entry, st), st.len() > 0,
        st2 =~= next_stack(t, st),
        t2.len() == t.len(),
        forall|j: int| #![trigger t2[j]] 0 <= j < t.len() && j != st.last() ==> t2[j] == t[j],
    ensures
        st.last() < t.len(),
        t[st.last() as int] == t0[st.last() as int],
        into_rel(t0, t2, st2),
        t0[st.last() as int].value.is_some() ==> yields(t0, tlive(t0), st_entry, st2, st.last() as int),
        t0[st.last() as int].value.is_none() ==> skipped_only(t0, tlive(t0), st_entry, st2),
        0 <= cov_cnt(t0, tlive(t0), st2, t0.len() as int) < cov_cnt(t0, tlive(t0), st, t0.len() as int),
{
    let live = tlive(t0);
    let cur = st.last() as int;
    lemma_twf_live(t0);
    assert(live.contains(cur) && covered(t0, st, cur)) by {
        reveal(stack_ok);
        assert(live.contains(st[st.len() - 1] as int));
        lemma_pre_refl(kb(t0, cur));
        assert(pre(kb(t0, st[st.len() - 1] as int), kb(t0, cur)));
    }
    assert(t[cur] == t0[cur]);
    assert(st2 =~= next_stack(t0, st));
    lemma_next_iter(t0, st_entry, st, st2);
    lemma_walk_step(t0, live, st, st2);
    assert forall|n: int| #![trigger t2[n]] live.contains(n) && covered(t0, st2, n) implies t2[n] == t0[n] by {
        assert(covered(t0, st2, n) == (covered(t0, st, n) && n != cur));
        lemma_live_bound(t0, n);
        assert(t2[n] == t[n]);
    }
}

/// index bound of the node about to be visited
pub proof fn lemma_into_pre<P: Prefix, T>(t0: Seq<Node<P, T>>, t: Seq<Node<P, T>>, st: Seq<usize>)
    requires into_rel(t0, t, st), st.len() > 0
    ensures st.last() < t.len(), t[st.last() as int] == t0[st.last() as int]
{
    let live = tlive(t0);
    let cur = st.last() as int;
    lemma_twf_live(t0);
    reveal(stack_ok);
    assert(live.contains(st[st.len() - 1] as int));
    lemma_pre_refl(kb(t0, cur));
    assert(pre(kb(t0, st[st.len() - 1] as int), kb(t0, cur)));
    assert(covered(t0, st, cur));
    lemma_live_bound(t0, cur);
}

pub open spec fn arena_upd<P: Prefix, T>(t: Seq<Node<P, T>>, t2: Seq<Node<P, T>>, cur: int) -> bool {
    t2.len() == t.len() && (forall|j: int| #![trigger t2[j]] 0 <= j < t.len() && j != cur ==> t2[j] == t[j])
}

/// lemma_into_iter for every related original arena and every arena that differs from `t` only at the popped node;
/// stated before the node is borrowed mutably, used when the borrow ends
pub proof fn lemma_into_all<P: Prefix, T>(st_entry: Seq<usize>, t: Seq<Node<P, T>>, st: Seq<usize>)
    requires st.len() > 0
    ensures
        forall|t0: Seq<Node<P, T>>, t2: Seq<Node<P, T>>, st2: Seq<usize>|
            into_rel(t0, t, st) && skipped_only(t0, tlive(t0), st_entry, st) && arena_upd(t, t2, st.last() as int) && st2 =~= next_stack(t, st)
            ==> #[trigger] into_rel(t0, t2, st2)
                && (t0[st.last() as int].value.is_some() ==> yields(t0, tlive(t0), st_entry, st2, st.last() as int))
                && (t0[st.last() as int].value.is_none() ==> skipped_only(t0, tlive(t0), st_entry, st2))
                && t[st.last() as int] == t0[st.last() as int],
{
    assert forall|t0: Seq<Node<P, T>>, t2: Seq<Node<P, T>>, st2: Seq<usize>|
            into_rel(t0, t, st) && skipped_only(t0, tlive(t0), st_entry, st) && arena_upd(t, t2, st.last() as int) && st2 =~= next_stack(t, st)
            implies #[trigger] into_rel(t0, t2, st2)
                && (t0[st.last() as int].value.is_some() ==> yields(t0, tlive(t0), st_entry, st2, st.last() as int))
                && (t0[st.last() as int].value.is_none() ==> skipped_only(t0, tlive(t0), st_entry, st2))
                && t[st.last() as int] == t0[st.last() as int] by {
        lemma_into_iter(t0, st_entry, t, st, t2, st2);
    }
}

/// a consuming traversal of the whole arena starting at `start`
pub proof fn lemma_into_from<P: Prefix, T>(t: Seq<Node<P, T>>, st: Seq<usize>)
    requires twf(t), st.len() <= 1, st.len() == 1 ==> tlive(t).contains(st[0] as int)
    ensures into_rel(t, t, st)
{
    lemma_stack_single(t, tlive(t), st);
}

// ---- composition: from the step contract of `next` to the statement of C03 ----

/// ys are the entries yielded by successive calls of next() (stack states sts), after which next() returned None
pub open spec fn yield_run<P: Prefix, T>(t: Seq<Node<P, T>>, live: ISet<int>, sts: Seq<Seq<usize>>, ys: Seq<int>) -> bool {
    sts.len() == ys.len() + 1
        && (forall|i: int| 0 <= i < ys.len() ==> #[trigger] yields(t, live, sts[i], sts[i + 1], ys[i]))
        && (forall|m: int| !#[trigger] remaining(t, live, sts[sts.len() - 1], m))
}

/// every entry remaining at step k is yielded at some later position, and the yields from k on are ascending
pub proof fn lemma_yield_run<P: Prefix, T>(t: Seq<Node<P, T>>, live: ISet<int>, sts: Seq<Seq<usize>>, ys: Seq<int>, k: int)
    requires yield_run(t, live, sts, ys), 0 <= k <= ys.len()
    ensures
        forall|m: int| #[trigger] remaining(t, live, sts[k], m) <==> (exists|i: int| k <= i < ys.len() && ys[i] == m),
        forall|i: int, j: int| k <= i < j < ys.len() ==> lex_lt(kb(t, #[trigger] ys[i]), kb(t, #[trigger] ys[j])),
    decreases ys.len() - k
{
    if k < ys.len() {
        lemma_yield_run(t, live, sts, ys, k + 1);
        assert(yields(t, live, sts[k], sts[k + 1], ys[k]));
        assert forall|m: int| #[trigger] remaining(t, live, sts[k], m) <==> (exists|i: int| k <= i < ys.len() && ys[i] == m) by {
            assert(remaining(t, live, sts[k + 1], m) == (remaining(t, live, sts[k], m) && m != ys[k]));
            if remaining(t, live, sts[k], m) && m != ys[k] {
                let i = choose|i: int| k + 1 <= i < ys.len() && ys[i] == m;
                assert(k <= i < ys.len() && ys[i] == m);
            }
            if exists|i: int| k <= i < ys.len() && ys[i] == m {
                let i = choose|i: int| k <= i < ys.len() && ys[i] == m;
                if i > k {
                    assert(k + 1 <= i < ys.len() && ys[i] == m);
                    assert(remaining(t, live, sts[k + 1], m));
                }
            }
        }
        assert forall|i: int, j: int| k <= i < j < ys.len() implies lex_lt(kb(t, #[trigger] ys[i]), kb(t, #[trigger] ys[j])) by {
            if i == k {
                assert(k + 1 <= j < ys.len() && ys[j] == ys[j]);
                assert(remaining(t, live, sts[k + 1], ys[j]));
                assert(remaining(t, live, sts[k], ys[j]) && ys[j] != ys[k]);
            }
        }
    } else {
        assert(sts[k] == sts[sts.len() - 1]);
        assert forall|m: int| #[trigger] remaining(t, live, sts[k], m) <==> (exists|i: int| k <= i < ys.len() && ys[i] == m) by {
            assert(!remaining(t, live, sts[sts.len() - 1], m));
        }
    }
}

/// [C03] a complete run yields exactly the entries that remained at the start, each once, in ascending lexicographic order
pub proof fn lemma_c03<P: Prefix, T>(t: Seq<Node<P, T>>, live: ISet<int>, sts: Seq<Seq<usize>>, ys: Seq<int>)
    requires yield_run(t, live, sts, ys)
    ensures
        forall|m: int| #[trigger] remaining(t, live, sts[0], m) <==> (exists|i: int| 0 <= i < ys.len() && ys[i] == m),
        forall|i: int, j: int| 0 <= i < j < ys.len() ==> lex_lt(kb(t, #[trigger] ys[i]), kb(t, #[trigger] ys[j])) && ys[i] != ys[j],
{
    lemma_yield_run(t, live, sts, ys, 0);
    assert forall|i: int, j: int| 0 <= i < j < ys.len() implies lex_lt(kb(t, #[trigger] ys[i]), kb(t, #[trigger] ys[j])) && ys[i] != ys[j] by {
        lemma_lex_irrefl(kb(t, ys[i]));
    }
}

/// [C09] "longest-prefix match returns the last element of cover(q)": the entry after which nothing is pending is the
/// longest stored key covering q, i.e. exactly what lpm_spec (the contract of get_lpm / get_lpm_prefix / get_lpm_mut) demands
pub proof fn lemma_cover_last_is_lpm<P: Prefix, T>(t: Seq<Node<P, T>>, idx0: Option<usize>, idx1: Option<usize>, q: Seq<bool>, n: int)
    requires
        twf(t),
        cover_yields(t, tlive(t), idx0, idx1, q, n),
        forall|m: int| !#[trigger] pending(t, tlive(t), idx1, q, m),
        // everything yielded before n is shorter than n (cover yields in strictly increasing length)
        forall|m: int| stored(t, tlive(t), m) && pre(kb(t, m), q) && !#[trigger] pending(t, tlive(t), idx0, q, m) ==> kb(t, m).len() < kb(t, n).len(),
    ensures
        lpm_spec(content(t, tlive(t)), q, Some((&t[n].prefix, &t[n].value.unwrap()))),
{
    let live = tlive(t);
    lemma_twf_live(t);
    lemma_content_at(t, live, n);
    lemma_glob(t, live);
    let m_ = content(t, live);
    assert forall|k: Seq<bool>| #[trigger] covers(m_, k, q) implies k.len() <= kb(t, n).len() by {
        lemma_content_dom(t, live, k);
        let i = node_of(t, live, k);
        if i != n {
            if pending(t, live, idx0, q, i) {
                assert(pending(t, live, idx1, q, i));
            }
        }
    }
}
