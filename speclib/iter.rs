// ---------------------------------------------------------------------------------------------
// speclib/iter.rs -- explicit-stack pre-order traversal (C03, C10, C11, C13): the stack denotes a
// list of pairwise incomparable key regions in lexicographically descending order (top = smallest)
// ---------------------------------------------------------------------------------------------

/// n is covered by some stack member
pub open spec fn covered<P: Prefix, T>(t: Seq<Node<P, T>>, st: Seq<usize>, n: int) -> bool {
    exists|k: int| 0 <= k < st.len() && pre(kb(t, #[trigger] st[k] as int), kb(t, n))
}

/// entries still to be yielded
pub open spec fn remaining<P: Prefix, T>(t: Seq<Node<P, T>>, live: ISet<int>, st: Seq<usize>, n: int) -> bool {
    stored(t, live, n) && covered(t, st, n)
}

#[verifier::opaque]
pub open spec fn stack_ok<P: Prefix, T>(t: Seq<Node<P, T>>, live: ISet<int>, st: Seq<usize>) -> bool {
    &&& (forall|k: int| 0 <= k < st.len() ==> live.contains(#[trigger] st[k] as int))
    &&& (forall|k: int, l: int| 0 <= k < l < st.len() ==>
            incomparable(kb(t, #[trigger] st[k] as int), kb(t, #[trigger] st[l] as int)) && lex_lt(kb(t, st[l] as int), kb(t, st[k] as int)))
}

// ---- lexicographic order facts ----

/// first position where two incomparable strings differ
pub open spec fn diff_at(a: Seq<bool>, b: Seq<bool>, k: int) -> bool {
    0 <= k < a.len() && k < b.len() && a[k] != b[k] && (forall|j: int| 0 <= j < k ==> a[j] == b[j])
}

pub proof fn lemma_diff_exists(a: Seq<bool>, b: Seq<bool>, i: int) -> (k: int)
    requires incomparable(a, b), 0 <= i <= a.len(), i <= b.len(), forall|j: int| 0 <= j < i ==> a[j] == b[j]
    ensures diff_at(a, b, k)
    decreases a.len() - i
{
    if i < a.len() && i < b.len() {
        if a[i] != b[i] { i } else { lemma_diff_exists(a, b, i + 1) }
    } else {
        // one of them is exhausted: it would be a prefix of the other
        if i == a.len() { assert(pre(a, b)); } else { assert(pre(b, a)); }
        0
    }
}

/// for incomparable strings the lexicographic order is decided by the first differing bit
pub proof fn lemma_lex_incomparable(a: Seq<bool>, b: Seq<bool>, k: int)
    requires incomparable(a, b), diff_at(a, b, k)
    ensures lex_lt(a, b) == (!a[k] && b[k]), lex_lt(b, a) == (a[k] && !b[k])
{
    if lex_lt(a, b) {
        let k2 = choose|k2: int| #![trigger a[k2]] 0 <= k2 < a.len() && k2 < b.len() && !a[k2] && b[k2] && (forall|j: int| 0 <= j < k2 ==> a[j] == b[j]);
        if k2 < k { assert(a[k2] == b[k2]); } else if k < k2 { assert(a[k] == b[k]); }
    }
    if lex_lt(b, a) {
        let k2 = choose|k2: int| #![trigger b[k2]] 0 <= k2 < b.len() && k2 < a.len() && !b[k2] && a[k2] && (forall|j: int| 0 <= j < k2 ==> b[j] == a[j]);
        if k2 < k { assert(a[k2] == b[k2]); } else if k < k2 { assert(a[k] == b[k]); }
    }
    if !a[k] && b[k] {
        assert(0 <= k < a.len() && k < b.len() && !a[k] && b[k] && (forall|j: int| 0 <= j < k ==> a[j] == b[j]));
    }
    if a[k] && !b[k] {
        assert(0 <= k < b.len() && k < a.len() && !b[k] && a[k] && (forall|j: int| 0 <= j < k ==> b[j] == a[j]));
    }
}

/// order and incomparability of two regions carry over to all their members
pub proof fn lemma_lex_regions(a: Seq<bool>, b: Seq<bool>, x: Seq<bool>, y: Seq<bool>)
    requires incomparable(a, b), lex_lt(a, b), pre(a, x), pre(b, y)
    ensures incomparable(x, y), lex_lt(x, y)
{
    let k = lemma_diff_exists(a, b, 0);
    lemma_lex_incomparable(a, b, k);
    assert(x[k] == a[k] && y[k] == b[k]);
    assert(diff_at(x, y, k)) by {
        assert forall|j: int| 0 <= j < k implies x[j] == y[j] by { assert(x[j] == a[j] && y[j] == b[j]); }
    }
    assert(incomparable(x, y)) by {
        if pre(x, y) { assert(x[k] == y[k]); }
        if pre(y, x) { assert(y[k] == x[k]); }
    }
    lemma_lex_incomparable(x, y, k);
}

/// the two children of a node: left region before right region
pub proof fn lemma_lex_children(p: Seq<bool>, l: Seq<bool>, r: Seq<bool>)
    requires spre(p, l), spre(p, r), !l[p.len() as int], r[p.len() as int]
    ensures incomparable(l, r), lex_lt(l, r)
{
    let k = p.len() as int;
    assert(diff_at(l, r, k)) by {
        assert forall|j: int| 0 <= j < k implies l[j] == r[j] by { assert(l[j] == p[j] && r[j] == p[j]); }
    }
    assert(incomparable(l, r)) by {
        if pre(l, r) { assert(l[k] == r[k]); }
        if pre(r, l) { assert(r[k] == l[k]); }
    }
    lemma_lex_incomparable(l, r, k);
}

pub proof fn lemma_lex_irrefl(a: Seq<bool>)
    ensures !lex_lt(a, a)
{
}

// ---- termination measure: number of live nodes covered by the stack ----

pub open spec fn cov_ind<P: Prefix, T>(t: Seq<Node<P, T>>, live: ISet<int>, st: Seq<usize>, i: int) -> int {
    if live.contains(i) && covered(t, st, i) { 1 } else { 0 }
}

pub open spec fn cov_cnt<P: Prefix, T>(t: Seq<Node<P, T>>, live: ISet<int>, st: Seq<usize>, n: int) -> int
    decreases n
{
    if n <= 0 { 0 } else { cov_cnt(t, live, st, n - 1) + cov_ind(t, live, st, n - 1) }
}

pub proof fn lemma_cov_cnt_diff<P: Prefix, T>(t: Seq<Node<P, T>>, live: ISet<int>, st: Seq<usize>, st2: Seq<usize>, n: int, k: int)
    requires forall|i: int| 0 <= i < n && i != k ==> cov_ind(t, live, st, i) == cov_ind(t, live, st2, i)
    ensures
        cov_cnt(t, live, st2, n) - cov_cnt(t, live, st, n) == (if 0 <= k < n { cov_ind(t, live, st2, k) - cov_ind(t, live, st, k) } else { 0 }),
        cov_cnt(t, live, st, n) >= 0,
    decreases n
{
    if n > 0 { lemma_cov_cnt_diff(t, live, st, st2, n - 1, k); }
}

// ---- one step of the walk ----

/// the stack after popping cur = st.last() and pushing its right, then its left child
pub open spec fn next_stack<P: Prefix, T>(t: Seq<Node<P, T>>, st: Seq<usize>) -> Seq<usize> {
    let cur = st.last() as int;
    let rest = st.drop_last();
    let a = if t[cur].right.is_some() { rest.push(t[cur].right.unwrap()) } else { rest };
    if t[cur].left.is_some() { a.push(t[cur].left.unwrap()) } else { a }
}

pub proof fn lemma_walk_step<P: Prefix, T>(t: Seq<Node<P, T>>, live: ISet<int>, st: Seq<usize>, st2: Seq<usize>)
    requires twf_live(t, live), stack_ok(t, live, st), st.len() > 0, st2 =~= next_stack(t, st)
    ensures
        stack_ok(t, live, st2),
        live.contains(st.last() as int), st.last() < t.len(),
        // what is covered afterwards: everything covered before except the popped node itself
        forall|n: int| live.contains(n) ==> (#[trigger] covered(t, st2, n) == (covered(t, st, n) && n != st.last())),
        covered(t, st, st.last() as int),
        // the popped node is the smallest of everything that was covered
        forall|n: int| live.contains(n) && #[trigger] covered(t, st, n) && n != st.last() ==> lex_lt(kb(t, st.last() as int), kb(t, n)),
        cov_cnt(t, live, st2, t.len() as int) < cov_cnt(t, live, st, t.len() as int),
        cov_cnt(t, live, st2, t.len() as int) >= 0,
{
    reveal(stack_ok);
    let cur = st.last() as int;
    let rest = st.drop_last();
    assert(live.contains(st[st.len() - 1] as int));
    lemma_step(t, live, cur, kb(t, cur));
    lemma_pre_refl(kb(t, cur));
    let kc = kb(t, cur);
    // members of st2
    assert forall|k: int| 0 <= k < st2.len() implies live.contains(#[trigger] st2[k] as int)
        && (k < rest.len() ==> st2[k] == st[k]) && (k >= rest.len() ==> spre(kc, kb(t, st2[k] as int))) by {
        if k < rest.len() { assert(st2[k] == st[k]); assert(live.contains(st[k] as int)); }
    }
    assert forall|k: int, l: int| 0 <= k < l < st2.len() implies
        incomparable(kb(t, #[trigger] st2[k] as int), kb(t, #[trigger] st2[l] as int)) && lex_lt(kb(t, st2[l] as int), kb(t, st2[k] as int)) by {
        let a = kb(t, st2[k] as int); let b = kb(t, st2[l] as int);
        if l < rest.len() {
            assert(st2[k] == st[k] && st2[l] == st[l]);
        } else if k < rest.len() {
            assert(st2[k] == st[k]);
            assert(incomparable(kb(t, st[k] as int), kb(t, st[st.len() - 1] as int)) && lex_lt(kb(t, st[st.len() - 1] as int), kb(t, st[k] as int)));
            lemma_pre_refl(a);
            lemma_lex_regions(kc, a, b, a);
        } else {
            // k = right child, l = left child
            assert(t[cur].right.is_some() && t[cur].left.is_some());
            assert(st2[k] == t[cur].right.unwrap() && st2[l] == t[cur].left.unwrap());
            assert(chd(t, cur, true) == t[cur].right && chd(t, cur, false) == t[cur].left);
            lemma_lex_children(kc, b, a);
        }
    }
    // coverage
    assert forall|n: int| live.contains(n) implies (#[trigger] covered(t, st2, n) == (covered(t, st, n) && n != cur)) by {
        if covered(t, st2, n) {
            let k = choose|k: int| 0 <= k < st2.len() && pre(kb(t, #[trigger] st2[k] as int), kb(t, n));
            if k < rest.len() {
                assert(st2[k] == st[k]);
                assert(pre(kb(t, st[k] as int), kb(t, n)));
                if n == cur {
                    assert(incomparable(kb(t, st[k] as int), kb(t, st[st.len() - 1] as int)));
                }
            } else {
                lemma_pre_trans(kc, kb(t, st2[k] as int), kb(t, n));
                assert(pre(kb(t, st[st.len() - 1] as int), kb(t, n)));
            }
        }
        if covered(t, st, n) && n != cur {
            let k = choose|k: int| 0 <= k < st.len() && pre(kb(t, #[trigger] st[k] as int), kb(t, n));
            if k < rest.len() {
                assert(st2[k] == st[k]);
                assert(pre(kb(t, st2[k] as int), kb(t, n)));
            } else {
                if kc =~= kb(t, n) { lemma_uniq(t, live, cur, n); }
                assert(spre(kc, kb(t, n)));
                lemma_desc(t, live, cur, n);
                let side = kb(t, n)[kc.len() as int];
                let ch = chd(t, cur, side).unwrap();
                if side {
                    if t[cur].left.is_some() { assert(st2[st2.len() - 2] == ch); } else { assert(st2[st2.len() - 1] == ch); }
                } else {
                    assert(st2[st2.len() - 1] == ch);
                }
            }
        }
    }
    assert(pre(kb(t, st[st.len() - 1] as int), kb(t, cur)));
    assert forall|n: int| live.contains(n) && #[trigger] covered(t, st, n) && n != cur implies lex_lt(kc, kb(t, n)) by {
        let k = choose|k: int| 0 <= k < st.len() && pre(kb(t, #[trigger] st[k] as int), kb(t, n));
        if k < rest.len() {
            assert(incomparable(kb(t, st[k] as int), kb(t, st[st.len() - 1] as int)) && lex_lt(kb(t, st[st.len() - 1] as int), kb(t, st[k] as int)));
            lemma_lex_regions(kc, kb(t, st[k] as int), kc, kb(t, n));
        } else {
            if kc =~= kb(t, n) { lemma_uniq(t, live, cur, n); }
        }
    }
    // measure
    assert forall|i: int| 0 <= i < t.len() && i != cur implies cov_ind(t, live, st, i) == cov_ind(t, live, st2, i) by {
        if live.contains(i) { assert(covered(t, st2, i) == (covered(t, st, i) && i != cur)); }
    }
    lemma_cov_cnt_diff(t, live, st, st2, t.len() as int, cur);
    assert(covered(t, st2, cur) == (covered(t, st, cur) && cur != cur));
    lemma_cov_cnt_diff(t, live, st2, st2, t.len() as int, -1);
}

/// a one-element stack is well formed
pub proof fn lemma_stack_single<P: Prefix, T>(t: Seq<Node<P, T>>, live: ISet<int>, st: Seq<usize>)
    requires st.len() <= 1, st.len() == 1 ==> live.contains(st[0] as int)
    ensures stack_ok(t, live, st)
{
    reveal(stack_ok);
}

/// the whole-map stack [0] covers every live node
pub proof fn lemma_root_covers<P: Prefix, T>(t: Seq<Node<P, T>>, live: ISet<int>, st: Seq<usize>, n: int)
    requires twf_live(t, live), st.len() == 1, st[0] == 0, live.contains(n)
    ensures covered(t, st, n)
{
    lemma_root(t, live, kb(t, n));
    assert(pre(kb(t, st[0] as int), kb(t, n)));
}

/// an empty stack covers nothing
pub proof fn lemma_empty_covers<P: Prefix, T>(t: Seq<Node<P, T>>, st: Seq<usize>, n: int)
    requires st.len() == 0
    ensures !covered(t, st, n)
{
}

// ---- iterator-level contract (Iter / IterMut / IntoIter share it) ----

pub open spec fn it_ok<'a, P: Prefix, T>(tb: Option<&'a Table<P, T>>, st: Seq<usize>) -> bool {
    match tb {
        None => st.len() == 0,
        Some(x) => twf(x.0@) && stack_ok(x.0@, tlive(x.0@), st),
    }
}

pub open spec fn it_measure<'a, P: Prefix, T>(tb: Option<&'a Table<P, T>>, st: Seq<usize>) -> int {
    match tb {
        None => 0,
        Some(x) => cov_cnt(x.0@, tlive(x.0@), st, x.0@.len() as int),
    }
}

/// node n is yielded by this step: smallest remaining entry, removed from the remaining set
pub open spec fn yields<P: Prefix, T>(t: Seq<Node<P, T>>, live: ISet<int>, st0: Seq<usize>, st1: Seq<usize>, n: int) -> bool {
    remaining(t, live, st0, n)
        && (forall|m: int| #[trigger] remaining(t, live, st0, m) && m != n ==> lex_lt(kb(t, n), kb(t, m)))
        && (forall|m: int| #[trigger] remaining(t, live, st1, m) == (remaining(t, live, st0, m) && m != n))
}

/// [C03] one call of `next`
pub open spec fn next_spec<'a, P: Prefix, T>(tb: Option<&'a Table<P, T>>, st0: Seq<usize>, st1: Seq<usize>, r: Option<(&P, &T)>) -> bool {
    match tb {
        None => r.is_none() && st1.len() == 0,
        Some(x) => {
            let t = x.0@; let live = tlive(t);
            match r {
                Some(e) => exists|n: int| #[trigger] yields(t, live, st0, st1, n) && *e.0 == t[n].prefix && *e.1 == t[n].value.unwrap(),
                None => (forall|m: int| !#[trigger] remaining(t, live, st0, m)) && st1.len() == 0,
            }
        },
    }
}

/// loop invariant of `next`: only value-less nodes have been skipped so far
pub open spec fn skipped_only<P: Prefix, T>(t: Seq<Node<P, T>>, live: ISet<int>, st0: Seq<usize>, st: Seq<usize>) -> bool {
    forall|m: int| #[trigger] remaining(t, live, st, m) == remaining(t, live, st0, m)
}

/// one loop iteration of `next` (cur = st.last() popped, children pushed)
pub proof fn lemma_next_iter<P: Prefix, T>(t: Seq<Node<P, T>>, st0: Seq<usize>, st: Seq<usize>, st2: Seq<usize>)
    requires twf(t), stack_ok(t, tlive(t), st), skipped_only(t, tlive(t), st0, st), st.len() > 0, st2 =~= next_stack(t, st)
    ensures
        stack_ok(t, tlive(t), st2),
        st.last() < t.len(),
        t[st.last() as int].value.is_some() ==> yields(t, tlive(t), st0, st2, st.last() as int),
        t[st.last() as int].value.is_none() ==> skipped_only(t, tlive(t), st0, st2),
        0 <= cov_cnt(t, tlive(t), st2, t.len() as int) < cov_cnt(t, tlive(t), st, t.len() as int),
{
    let live = tlive(t);
    lemma_twf(t);
    lemma_walk_step(t, live, st, st2);
    let cur = st.last() as int;
    assert forall|m: int| #[trigger] remaining(t, live, st2, m) == (remaining(t, live, st, m) && m != cur) by {
        if live.contains(m) { assert(covered(t, st2, m) == (covered(t, st, m) && m != cur)); }
    }
    if t[cur].value.is_some() {
        assert(remaining(t, live, st, cur));
        assert(remaining(t, live, st0, cur));
        assert forall|m: int| #[trigger] remaining(t, live, st0, m) && m != cur implies lex_lt(kb(t, cur), kb(t, m)) by {
            assert(remaining(t, live, st, m));
            assert(covered(t, st, m));
        }
        assert forall|m: int| #[trigger] remaining(t, live, st2, m) == (remaining(t, live, st0, m) && m != cur) by {
            assert(remaining(t, live, st, m) == remaining(t, live, st0, m));
        }
    } else {
        assert forall|m: int| #[trigger] remaining(t, live, st2, m) == remaining(t, live, st0, m) by {
            assert(remaining(t, live, st, m) == remaining(t, live, st0, m));
        }
    }
}

/// loop exit of `next`: nothing remains
pub proof fn lemma_next_done<P: Prefix, T>(t: Seq<Node<P, T>>, st0: Seq<usize>, st: Seq<usize>)
    requires skipped_only(t, tlive(t), st0, st), st.len() == 0
    ensures forall|m: int| !#[trigger] remaining(t, tlive(t), st0, m)
{
    assert forall|m: int| !#[trigger] remaining(t, tlive(t), st0, m) by {
        assert(remaining(t, tlive(t), st, m) == remaining(t, tlive(t), st0, m));
    }
}
