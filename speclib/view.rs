// ---------------------------------------------------------------------------------------------
// speclib/view.rs -- sub-trie views (C11, C12).  `ViewLoc`, `TrieView`, `TrieViewMut` are the
// types extracted from src/trieview/mod.rs.
// ---------------------------------------------------------------------------------------------

/// key bits of the position a view stands for
pub open spec fn vbits<P: Prefix, T>(t: Seq<Node<P, T>>, loc: ViewLoc<P>) -> Seq<bool> {
    match loc {
        ViewLoc::Node(i) => kb(t, i as int),
        ViewLoc::Virtual(p, _) => p.bits(),
    }
}

pub open spec fn vidx<P>(loc: ViewLoc<P>) -> int {
    match loc {
        ViewLoc::Node(i) => i as int,
        ViewLoc::Virtual(_, i) => i as int,
    }
}

/// a view is valid: its node is live; a virtual position lies strictly above its node and owns exactly that node's region
pub open spec fn v_ok<P: Prefix, T>(t: Seq<Node<P, T>>, loc: ViewLoc<P>) -> bool {
    twf(t) && tlive(t).contains(vidx(loc))
        && (match loc {
            ViewLoc::Node(_) => true,
            ViewLoc::Virtual(p, i) => spre(p.bits(), kb(t, i as int)) && top_below(t, tlive(t), p.bits(), i as int),
        })
}

/// i is the topmost live node at or below x
pub open spec fn top_below<P: Prefix, T>(t: Seq<Node<P, T>>, live: ISet<int>, x: Seq<bool>, i: int) -> bool {
    forall|n: int| #![trigger live.contains(n)] live.contains(n) && pre(x, kb(t, n)) ==> pre(kb(t, i), kb(t, n))
}

/// live node n belongs to the view
pub open spec fn in_view<P: Prefix, T>(t: Seq<Node<P, T>>, loc: ViewLoc<P>, n: int) -> bool {
    tlive(t).contains(n) && pre(vbits(t, loc), kb(t, n))
}

/// the nodes of a view are exactly the live nodes in the region of its underlying node
pub proof fn lemma_view_region<P: Prefix, T>(t: Seq<Node<P, T>>, loc: ViewLoc<P>, n: int)
    requires v_ok(t, loc)
    ensures in_view(t, loc, n) == (tlive(t).contains(n) && pre(kb(t, vidx(loc)), kb(t, n)))
{
    reveal(find_spec); reveal(find_exact_spec); reveal(find_lpm_spec); reveal(side_spec); reveal(under_view);
    match loc {
        ViewLoc::Node(_) => {},
        ViewLoc::Virtual(p, i) => {
            if pre(kb(t, i as int), kb(t, n)) { lemma_pre_trans(p.bits(), kb(t, i as int), kb(t, n)); }
        },
    }
}

/// q lies at or below the node a view is attached to (opaque: executable code only branches on it)
#[verifier::opaque]
pub open spec fn under_view<P: Prefix, T>(t: Seq<Node<P, T>>, loc: ViewLoc<P>, q: Seq<bool>) -> bool {
    pre(kb(t, vidx(loc)), q)
}

/// [C11/C12] find(q): the result addresses exactly the nodes of the view covered by q; None only if there are none
#[verifier::opaque]
pub open spec fn find_spec<P: Prefix, T>(t: Seq<Node<P, T>>, loc: ViewLoc<P>, q: Seq<bool>, r: Option<ViewLoc<P>>) -> bool {
    match r {
        Some(l2) => v_ok(t, l2) && vbits(t, l2) =~= q
            && (forall|n: int| #[trigger] in_view(t, l2, n) == (in_view(t, loc, n) && pre(q, kb(t, n)))),
        None => forall|n: int| !(#[trigger] in_view(t, loc, n) && pre(q, kb(t, n))),
    }
}

/// descent state of `find`: q lies in the region of the current node, which lies in the view
pub open spec fn find_inv<P: Prefix, T>(t: Seq<Node<P, T>>, loc: ViewLoc<P>, q: Seq<bool>, idx: int) -> bool {
    tlive(t).contains(idx) && pre(kb(t, idx), q) && pre(kb(t, vidx(loc)), kb(t, idx))
}

pub proof fn lemma_find_reached<P: Prefix, T>(t: Seq<Node<P, T>>, loc: ViewLoc<P>, q: Seq<bool>, idx: usize)
    requires v_ok(t, loc), find_inv(t, loc, q, idx as int), kb(t, idx as int) =~= q
    ensures find_spec(t, loc, q, Some(ViewLoc::<P>::Node(idx)))
{
    reveal(find_spec); reveal(find_exact_spec); reveal(find_lpm_spec); reveal(side_spec); reveal(under_view);
    let l2 = ViewLoc::<P>::Node(idx);
    assert(kb(t, idx as int) == q);
    assert forall|n: int| #[trigger] in_view(t, l2, n) == (in_view(t, loc, n) && pre(q, kb(t, n))) by {
        lemma_view_region(t, loc, n);
        if pre(q, kb(t, n)) { lemma_pre_trans(kb(t, vidx(loc)), q, kb(t, n)); }
    }
}

pub proof fn lemma_find_virtual<P: Prefix, T>(t: Seq<Node<P, T>>, loc: ViewLoc<P>, qp: P, idx: int, c: usize)
    requires
        v_ok(t, loc), find_inv(t, loc, qp.bits(), idx), !(kb(t, idx) =~= qp.bits()),
        chd(t, idx, next_bit(kb(t, idx), qp.bits())) == Some(c),
        pre(qp.bits(), kb(t, c as int)), !pre(kb(t, c as int), qp.bits()),
    ensures find_spec(t, loc, qp.bits(), Some(ViewLoc::Virtual(qp, c)))
{
    reveal(find_spec); reveal(find_exact_spec); reveal(find_lpm_spec); reveal(side_spec); reveal(under_view);
    let q = qp.bits();
    let live = tlive(t);
    let l2 = ViewLoc::Virtual(qp, c);
    lemma_twf_live(t);
    lemma_step(t, live, idx, q);
    assert(live.contains(c as int));
    assert forall|n: int| #![trigger live.contains(n)] live.contains(n) && pre(q, kb(t, n)) implies pre(kb(t, c as int), kb(t, n)) by {
        lemma_region_same(t, live, idx, q, n);
    }
    assert forall|n: int| #[trigger] in_view(t, l2, n) == (in_view(t, loc, n) && pre(q, kb(t, n))) by {
        lemma_view_region(t, loc, n);
        if pre(q, kb(t, n)) {
            lemma_pre_trans(kb(t, vidx(loc)), kb(t, idx), q);
            lemma_pre_trans(kb(t, vidx(loc)), q, kb(t, n));
        }
    }
}

pub proof fn lemma_find_none<P: Prefix, T>(t: Seq<Node<P, T>>, loc: ViewLoc<P>, q: Seq<bool>, idx: int)
    requires
        v_ok(t, loc), find_inv(t, loc, q, idx), !(kb(t, idx) =~= q),
        chd(t, idx, next_bit(kb(t, idx), q)).is_none()
            || (!pre(q, kb(t, chd(t, idx, next_bit(kb(t, idx), q)).unwrap() as int)) && !pre(kb(t, chd(t, idx, next_bit(kb(t, idx), q)).unwrap() as int), q)),
    ensures find_spec::<P, T>(t, loc, q, None)
{
    reveal(find_spec); reveal(find_exact_spec); reveal(find_lpm_spec); reveal(side_spec); reveal(under_view);
    let live = tlive(t);
    lemma_twf_live(t);
    assert forall|n: int| !(#[trigger] in_view(t, loc, n) && pre(q, kb(t, n))) by {
        if live.contains(n) { lemma_region_empty(t, live, idx, q, n); }
    }
}

/// one descent step keeps the invariant
pub proof fn lemma_find_step<P: Prefix, T>(t: Seq<Node<P, T>>, loc: ViewLoc<P>, q: Seq<bool>, idx: int)
    requires v_ok(t, loc), find_inv(t, loc, q, idx)
    ensures
        step_bounds(t, tlive(t), idx),
        !path_ends(t, idx, q) ==> find_inv(t, loc, q, path_next(t, idx, q)),
{
    reveal(find_spec); reveal(find_exact_spec); reveal(find_lpm_spec); reveal(side_spec); reveal(under_view);
    lemma_twf_live(t);
    lemma_step(t, tlive(t), idx, q);
    if !path_ends(t, idx, q) {
        lemma_pre_trans(kb(t, vidx(loc)), kb(t, idx), kb(t, path_next(t, idx, q)));
    }
}

/// start of a search: the underlying node of the view covers q  (hypothesis of the C11 clause)
pub proof fn lemma_find_start<P: Prefix, T>(t: Seq<Node<P, T>>, loc: ViewLoc<P>, q: Seq<bool>)
    requires v_ok(t, loc), under_view(t, loc, q)
    ensures find_inv(t, loc, q, vidx(loc)), vidx(loc) < t.len()
{
    reveal(find_spec); reveal(find_exact_spec); reveal(find_lpm_spec); reveal(side_spec); reveal(under_view);
    lemma_live_bound(t, vidx(loc));
    lemma_pre_refl(kb(t, vidx(loc)));
}

// ---- entries of a view: exact and longest match ----

/// [C12] find_exact: Some iff q is stored in the view; positioned at q
#[verifier::opaque]
pub open spec fn find_exact_spec<P: Prefix, T>(t: Seq<Node<P, T>>, loc: ViewLoc<P>, q: Seq<bool>, r: Option<ViewLoc<P>>) -> bool {
    match r {
        Some(l2) => v_ok(t, l2) && (l2 is Node) && vbits(t, l2) =~= q && in_view(t, loc, vidx(l2)) && t[vidx(l2)].value.is_some(),
        None => forall|n: int| !(#[trigger] in_view(t, loc, n) && t[n].value.is_some() && kb(t, n) =~= q),
    }
}

/// [C12] find_lpm: positioned at the longest stored key of the view covering q
#[verifier::opaque]
pub open spec fn find_lpm_spec<P: Prefix, T>(t: Seq<Node<P, T>>, loc: ViewLoc<P>, q: Seq<bool>, r: Option<ViewLoc<P>>) -> bool {
    match r {
        Some(l2) => v_ok(t, l2) && (l2 is Node) && in_view(t, loc, vidx(l2)) && t[vidx(l2)].value.is_some() && pre(kb(t, vidx(l2)), q)
            && (forall|n: int| #[trigger] in_view(t, loc, n) && t[n].value.is_some() && pre(kb(t, n), q) ==> kb(t, n).len() <= kb(t, vidx(l2)).len()),
        None => forall|n: int| !(#[trigger] in_view(t, loc, n) && t[n].value.is_some() && pre(kb(t, n), q)),
    }
}

/// exact search: the descent from the view's node either reaches q or shows that q is not a node of the view.
/// Holds for every q (inside, above or beside the view).
pub open spec fn fe_inv<P: Prefix, T>(t: Seq<Node<P, T>>, loc: ViewLoc<P>, q: Seq<bool>, idx: int) -> bool {
    tlive(t).contains(idx) && pre(kb(t, vidx(loc)), kb(t, idx))
        && (pre(kb(t, vidx(loc)), q) ==> pre(kb(t, idx), q))
        && (!pre(kb(t, vidx(loc)), q) ==> idx == vidx(loc))
}

pub proof fn lemma_fe_step<P: Prefix, T>(t: Seq<Node<P, T>>, loc: ViewLoc<P>, q: Seq<bool>, idx: int)
    requires v_ok(t, loc), fe_inv(t, loc, q, idx), idx <= usize::MAX
    ensures
        0 <= idx < t.len(),
        forall|s: bool| #![trigger chd(t, idx, s)] chd(t, idx, s).is_some() ==> chd(t, idx, s).unwrap() < t.len() && kb(t, chd(t, idx, s).unwrap() as int).len() <= 255
            && spre(kb(t, idx), kb(t, chd(t, idx, s).unwrap() as int)),
        kb(t, idx).len() <= 255,
        // Reached
        kb(t, idx) =~= q ==> in_view(t, loc, idx) && v_ok(t, ViewLoc::<P>::Node(idx as usize))
            && (t[idx].value.is_none() ==> find_exact_spec::<P, T>(t, loc, q, None)),
        // Enter
        ({
            let s = next_bit(kb(t, idx), q);
            !(kb(t, idx) =~= q) && chd(t, idx, s).is_some() && pre(kb(t, chd(t, idx, s).unwrap() as int), q)
        }) ==> fe_inv(t, loc, q, chd(t, idx, next_bit(kb(t, idx), q)).unwrap() as int),
        // Missing
        ({
            let s = next_bit(kb(t, idx), q);
            !(kb(t, idx) =~= q) && (chd(t, idx, s).is_none() || !pre(kb(t, chd(t, idx, s).unwrap() as int), q))
        }) ==> find_exact_spec::<P, T>(t, loc, q, None),
{
    reveal(find_spec); reveal(find_exact_spec); reveal(find_lpm_spec); reveal(side_spec); reveal(under_view);
    let live = tlive(t);
    lemma_twf_live(t);
    lemma_pre_refl(kb(t, idx));
    lemma_step(t, live, idx, kb(t, idx));
    lemma_view_region(t, loc, idx);
    let s = next_bit(kb(t, idx), q);
    if kb(t, idx) =~= q {
        if t[idx].value.is_none() {
            assert forall|n: int| !(#[trigger] in_view(t, loc, n) && t[n].value.is_some() && kb(t, n) =~= q) by {
                if live.contains(n) && kb(t, n) =~= q { lemma_uniq(t, live, n, idx); }
            }
        }
    } else if chd(t, idx, s).is_some() && pre(kb(t, chd(t, idx, s).unwrap() as int), q) {
        let c = chd(t, idx, s).unwrap() as int;
        lemma_pre_trans(kb(t, vidx(loc)), kb(t, idx), kb(t, c));
        if !pre(kb(t, vidx(loc)), q) {
            // c is a child of the view's node and covers q, so the view's node covers q: contradiction
            lemma_pre_trans(kb(t, idx), kb(t, c), q);
        }
    } else {
        assert forall|n: int| !(#[trigger] in_view(t, loc, n) && t[n].value.is_some() && kb(t, n) =~= q) by {
            lemma_view_region(t, loc, n);
            if in_view(t, loc, n) && kb(t, n) =~= q {
                // then the view's node covers q, the descent is on the path to q, and n lies below idx on it
                assert(pre(kb(t, vidx(loc)), q));
                assert(pre(kb(t, idx), q));
                lemma_step(t, live, idx, q);
                assert(on_path_below(t, live, idx, q, n));
            }
        }
    }
}

pub proof fn lemma_fe_start<P: Prefix, T>(t: Seq<Node<P, T>>, loc: ViewLoc<P>, q: Seq<bool>)
    requires v_ok(t, loc)
    ensures fe_inv(t, loc, q, vidx(loc))
{
    reveal(find_spec); reveal(find_exact_spec); reveal(find_lpm_spec); reveal(side_spec); reveal(under_view);
    lemma_pre_refl(kb(t, vidx(loc)));
}

// ---- left / right ----

/// [C11] the side `s` of a view: exactly its nodes strictly below the view position whose next bit is s
#[verifier::opaque]
pub open spec fn side_spec<P: Prefix, T>(t: Seq<Node<P, T>>, loc: ViewLoc<P>, s: bool, r: Option<ViewLoc<P>>) -> bool {
    let x = vbits(t, loc);
    match r {
        Some(l2) => v_ok(t, l2) && (l2 is Node)
            && (forall|n: int| #[trigger] in_view(t, l2, n) == (in_view(t, loc, n) && spre(x, kb(t, n)) && kb(t, n)[x.len() as int] == s)),
        None => forall|n: int| !(#[trigger] in_view(t, loc, n) && spre(x, kb(t, n)) && kb(t, n)[x.len() as int] == s),
    }
}

pub proof fn lemma_side_node<P: Prefix, T>(t: Seq<Node<P, T>>, i: usize, s: bool)
    requires v_ok(t, ViewLoc::<P>::Node(i))
    ensures
        i < t.len(),
        chd(t, i as int, s).is_some() ==> side_spec(t, ViewLoc::<P>::Node(i), s, Some(ViewLoc::<P>::Node(chd(t, i as int, s).unwrap()))),
        chd(t, i as int, s).is_none() ==> side_spec::<P, T>(t, ViewLoc::<P>::Node(i), s, None),
{
    reveal(find_spec); reveal(find_exact_spec); reveal(find_lpm_spec); reveal(side_spec); reveal(under_view);
    let live = tlive(t);
    let loc = ViewLoc::<P>::Node(i);
    let x = kb(t, i as int);
    lemma_twf_live(t);
    lemma_pre_refl(x);
    lemma_step(t, live, i as int, x);
    if chd(t, i as int, s).is_some() {
        let c = chd(t, i as int, s).unwrap();
        let l2 = ViewLoc::<P>::Node(c);
        assert forall|n: int| #[trigger] in_view(t, l2, n) == (in_view(t, loc, n) && spre(x, kb(t, n)) && kb(t, n)[x.len() as int] == s) by {
            if live.contains(n) {
                if pre(kb(t, c as int), kb(t, n)) { lemma_pre_trans(x, kb(t, c as int), kb(t, n)); }
                if spre(x, kb(t, n)) && kb(t, n)[x.len() as int] == s { lemma_desc(t, live, i as int, n); }
            }
        }
    } else {
        assert forall|n: int| !(#[trigger] in_view(t, loc, n) && spre(x, kb(t, n)) && kb(t, n)[x.len() as int] == s) by {
            if live.contains(n) && spre(x, kb(t, n)) && kb(t, n)[x.len() as int] == s { lemma_desc(t, live, i as int, n); }
        }
    }
}

pub proof fn lemma_side_virtual<P: Prefix, T>(t: Seq<Node<P, T>>, p: P, i: usize, s: bool)
    requires v_ok(t, ViewLoc::Virtual(p, i))
    ensures
        i < t.len(),
        kb(t, i as int)[p.bits().len() as int] == s ==> side_spec(t, ViewLoc::Virtual(p, i), s, Some(ViewLoc::<P>::Node(i))),
        kb(t, i as int)[p.bits().len() as int] != s ==> side_spec::<P, T>(t, ViewLoc::Virtual(p, i), s, None),
{
    reveal(find_spec); reveal(find_exact_spec); reveal(find_lpm_spec); reveal(side_spec); reveal(under_view);
    let live = tlive(t);
    let loc = ViewLoc::Virtual(p, i);
    let x = p.bits();
    lemma_live_bound(t, i as int);
    lemma_twf_live(t);
    assert forall|n: int| in_view(t, loc, n) implies pre(kb(t, i as int), kb(t, n)) && spre(x, kb(t, n)) && kb(t, n)[x.len() as int] == kb(t, i as int)[x.len() as int] by {
        lemma_view_region(t, loc, n);
    }
    if kb(t, i as int)[x.len() as int] == s {
        let l2 = ViewLoc::<P>::Node(i);
        assert forall|n: int| #[trigger] in_view(t, l2, n) == (in_view(t, loc, n) && spre(x, kb(t, n)) && kb(t, n)[x.len() as int] == s) by {
            lemma_view_region(t, loc, n);
        }
    } else {
        assert forall|n: int| !(#[trigger] in_view(t, loc, n) && spre(x, kb(t, n)) && kb(t, n)[x.len() as int] == s) by { }
    }
}

/// a view's traversal starts at its underlying node: remaining == stored entries of the view
pub proof fn lemma_view_iter<P: Prefix, T>(tbl: &Table<P, T>, loc: ViewLoc<P>, st: Seq<usize>)
    requires v_ok(tbl.0@, loc), st =~= seq![vidx(loc) as usize]
    ensures
        it_ok(Some(tbl), st),
        forall|n: int| #[trigger] remaining(tbl.0@, tlive(tbl.0@), st, n) == (in_view(tbl.0@, loc, n) && tbl.0@[n].value.is_some()),
{
    reveal(find_spec); reveal(find_exact_spec); reveal(find_lpm_spec); reveal(side_spec); reveal(under_view);
    let t = tbl.0@;
    lemma_twf_live(t);
    lemma_iter_from(tbl, st, vidx(loc));
    assert forall|n: int| #[trigger] remaining(t, tlive(t), st, n) == (in_view(t, loc, n) && t[n].value.is_some()) by {
        lemma_view_region(t, loc, n);
    }
}

/// the whole-map view
pub proof fn lemma_view_root<P: Prefix, T>(t: Seq<Node<P, T>>, live: ISet<int>)
    requires twf_live(t, live)
    ensures
        v_ok(t, ViewLoc::<P>::Node(0)), tlive(t) =~= live,
        forall|n: int| #[trigger] in_view(t, ViewLoc::<P>::Node(0), n) == live.contains(n),
        forall|q: Seq<bool>| #[trigger] under_view(t, ViewLoc::<P>::Node(0), q),
{
    reveal(find_spec); reveal(find_exact_spec); reveal(find_lpm_spec); reveal(side_spec); reveal(under_view);
    lemma_tlive(t, live);
    lemma_root(t, live, Seq::<bool>::empty());
    assert forall|n: int| #[trigger] in_view(t, ViewLoc::<P>::Node(0), n) == live.contains(n) by { }
}

// ---- longest match inside a view ----

/// best is the longest valued node of the view that is a (strict) prefix of kb(idx)
pub open spec fn vlpm_upto<P: Prefix, T>(t: Seq<Node<P, T>>, loc: ViewLoc<P>, idx: int, strict: bool, best: Option<usize>) -> bool {
    (best.is_some() ==> in_view(t, loc, best.unwrap() as int) && t[best.unwrap() as int].value.is_some() && pre(kb(t, best.unwrap() as int), kb(t, idx))
        && (strict ==> kb(t, best.unwrap() as int).len() < kb(t, idx).len()))
    && (forall|n: int| #[trigger] in_view(t, loc, n) && t[n].value.is_some() && pre(kb(t, n), kb(t, idx)) && (strict ==> kb(t, n).len() < kb(t, idx).len())
            ==> best.is_some() && kb(t, n).len() <= kb(t, best.unwrap() as int).len())
}

pub proof fn lemma_vlpm_start<P: Prefix, T>(t: Seq<Node<P, T>>, loc: ViewLoc<P>, q: Seq<bool>)
    requires v_ok(t, loc), under_view(t, loc, q)
    ensures vlpm_upto::<P, T>(t, loc, vidx(loc), true, None), find_inv(t, loc, q, vidx(loc))
{
    reveal(find_spec); reveal(find_exact_spec); reveal(find_lpm_spec); reveal(side_spec); reveal(under_view);
    lemma_twf_live(t);
    lemma_pre_refl(kb(t, vidx(loc)));
    assert forall|n: int| #[trigger] in_view(t, loc, n) && t[n].value.is_some() && pre(kb(t, n), kb(t, vidx(loc))) && kb(t, n).len() < kb(t, vidx(loc)).len() implies false by {
        lemma_view_region(t, loc, n);
    }
}

/// including the current node (non-strict)
pub proof fn lemma_vlpm_here<P: Prefix, T>(t: Seq<Node<P, T>>, loc: ViewLoc<P>, q: Seq<bool>, idx: int, best: Option<usize>, best2: Option<usize>)
    requires
        v_ok(t, loc), find_inv(t, loc, q, idx), vlpm_upto(t, loc, idx, true, best),
        t[idx].value.is_some() ==> best2.is_some() && best2.unwrap() as int == idx,
        t[idx].value.is_none() ==> best2 == best,
    ensures vlpm_upto(t, loc, idx, false, best2)
{
    reveal(under_view);
    let live = tlive(t);
    lemma_view_region(t, loc, idx);
    lemma_pre_refl(kb(t, idx));
    assert forall|n: int| #[trigger] in_view(t, loc, n) && t[n].value.is_some() && pre(kb(t, n), kb(t, idx))
        implies best2.is_some() && kb(t, n).len() <= kb(t, best2.unwrap() as int).len() by {
        if kb(t, n).len() == kb(t, idx).len() { lemma_uniq(t, live, n, idx); }
    }
}

pub proof fn lemma_vlpm_end<P: Prefix, T>(t: Seq<Node<P, T>>, loc: ViewLoc<P>, q: Seq<bool>, idx: int, best2: Option<usize>)
    requires v_ok(t, loc), find_inv(t, loc, q, idx), vlpm_upto(t, loc, idx, false, best2), path_ends(t, idx, q)
    ensures find_lpm_spec(t, loc, q, (if best2.is_some() { Some(ViewLoc::<P>::Node(best2.unwrap())) } else { None }))
{
    reveal(find_lpm_spec);
    let live = tlive(t);
    lemma_twf_live(t);
    lemma_step(t, live, idx, q);
    assert forall|n: int| #[trigger] in_view(t, loc, n) && t[n].value.is_some() && pre(kb(t, n), q) implies pre(kb(t, n), kb(t, idx)) by {
        lemma_pre_comparable(kb(t, n), kb(t, idx), q);
        if !pre(kb(t, n), kb(t, idx)) { assert(on_path_below(t, live, idx, q, n)); }
    }
    if best2.is_some() {
        lemma_pre_trans(kb(t, best2.unwrap() as int), kb(t, idx), q);
    }
}

pub proof fn lemma_vlpm_next<P: Prefix, T>(t: Seq<Node<P, T>>, loc: ViewLoc<P>, q: Seq<bool>, idx: int, best2: Option<usize>)
    requires v_ok(t, loc), find_inv(t, loc, q, idx), vlpm_upto(t, loc, idx, false, best2), !path_ends(t, idx, q)
    ensures find_inv(t, loc, q, path_next(t, idx, q)), vlpm_upto(t, loc, path_next(t, idx, q), true, best2)
{
    let live = tlive(t);
    lemma_twf_live(t);
    lemma_find_step(t, loc, q, idx);
    lemma_step(t, live, idx, q);
    let c = path_next(t, idx, q);
    assert forall|n: int| #[trigger] in_view(t, loc, n) && t[n].value.is_some() && pre(kb(t, n), kb(t, c)) && kb(t, n).len() < kb(t, c).len()
        implies pre(kb(t, n), kb(t, idx)) by {
        lemma_pre_comparable(kb(t, n), kb(t, idx), kb(t, c));
        if !pre(kb(t, n), kb(t, idx)) {
            lemma_pre_trans(kb(t, n), kb(t, c), q);
            assert(on_path_below(t, live, idx, q, n));
        }
    }
    if best2.is_some() {
        lemma_pre_trans(kb(t, best2.unwrap() as int), kb(t, idx), kb(t, c));
    }
}

pub proof fn lemma_vlpm_step<P: Prefix, T>(t: Seq<Node<P, T>>, loc: ViewLoc<P>, q: Seq<bool>, idx: int, best: Option<usize>, best2: Option<usize>)
    requires
        v_ok(t, loc), find_inv(t, loc, q, idx), vlpm_upto(t, loc, idx, true, best),
        t[idx].value.is_some() ==> best2.is_some() && best2.unwrap() as int == idx,
        t[idx].value.is_none() ==> best2 == best,
    ensures
        step_bounds(t, tlive(t), idx),
        path_ends(t, idx, q) ==> find_lpm_spec(t, loc, q, (if best2.is_some() { Some(ViewLoc::<P>::Node(best2.unwrap())) } else { None })),
        !path_ends(t, idx, q) ==> find_inv(t, loc, q, path_next(t, idx, q)) && vlpm_upto(t, loc, path_next(t, idx, q), true, best2),
{
    lemma_find_step(t, loc, q, idx);
    lemma_vlpm_here(t, loc, q, idx, best, best2);
    if path_ends(t, idx, q) { lemma_vlpm_end(t, loc, q, idx, best2); } else { lemma_vlpm_next(t, loc, q, idx, best2); }
}

pub open spec fn vloc<'a, P, T>(r: Option<TrieView<'a, P, T>>) -> Option<ViewLoc<P>> {
    match r { Some(v) => Some(v.loc), None => None }
}

/// [C11] value(): the value stored exactly at the view's position
pub open spec fn view_value_spec<P: Prefix, T>(t: Seq<Node<P, T>>, loc: ViewLoc<P>, r: Option<&T>) -> bool {
    match loc {
        ViewLoc::Node(i) => r.is_some() == t[i as int].value.is_some() && (r.is_some() ==> *r.unwrap() == t[i as int].value.unwrap()),
        ViewLoc::Virtual(p, _) => r.is_none(),
    }
}

/// a virtual position is not a node: nothing is stored exactly there
pub proof fn lemma_virtual_empty<P: Prefix, T>(t: Seq<Node<P, T>>, p: P, i: usize, n: int)
    requires v_ok(t, ViewLoc::Virtual(p, i)), tlive(t).contains(n)
    ensures !(kb(t, n) =~= p.bits())
{
    reveal(find_spec); reveal(find_exact_spec); reveal(find_lpm_spec); reveal(side_spec); reveal(under_view);
    if kb(t, n) =~= p.bits() {
        lemma_pre_refl(p.bits());
        assert(pre(p.bits(), kb(t, n)));
    }
}

pub proof fn lemma_vok_node<P: Prefix, T>(t: Seq<Node<P, T>>, i: usize)
    requires twf(t), tlive(t).contains(i as int)
    ensures v_ok(t, ViewLoc::<P>::Node(i)), vidx(ViewLoc::<P>::Node(i)) == i, vbits(t, ViewLoc::<P>::Node(i)) == kb(t, i as int)
{
}

// ---- Result-returning twins of TrieViewMut ----

pub open spec fn mloc<'a, P, T>(r: Result<TrieViewMut<'a, P, T>, TrieViewMut<'a, P, T>>) -> Option<ViewLoc<P>> {
    match r { Ok(v) => Some(v.loc), Err(_) => None }
}

/// on failure the original view is handed back unchanged
pub open spec fn err_same<'a, P, T>(r: Result<TrieViewMut<'a, P, T>, TrieViewMut<'a, P, T>>, table: &'a Table<P, T>, loc: ViewLoc<P>) -> bool {
    match r { Ok(v) => v.table == table, Err(v) => v.table == table && v.loc == loc }
}

/// a side either is empty or is addressed by a view, never both
pub proof fn lemma_side_excl<P: Prefix, T>(t: Seq<Node<P, T>>, loc: ViewLoc<P>, s: bool)
    requires v_ok(t, loc)
    ensures
        (loc is Node && chd(t, vidx(loc), s).is_some()) ==> !side_spec::<P, T>(t, loc, s, None),
        (loc is Virtual && kb(t, vidx(loc))[vbits(t, loc).len() as int] == s) ==> !side_spec::<P, T>(t, loc, s, None),
{
    reveal(side_spec);
    let live = tlive(t);
    lemma_twf_live(t);
    let x = vbits(t, loc);
    if loc is Node && chd(t, vidx(loc), s).is_some() {
        lemma_pre_refl(kb(t, vidx(loc)));
        lemma_step(t, live, vidx(loc), kb(t, vidx(loc)));
        let c = chd(t, vidx(loc), s).unwrap() as int;
        assert(in_view(t, loc, c) && spre(x, kb(t, c)) && kb(t, c)[x.len() as int] == s);
    }
    if loc is Virtual && kb(t, vidx(loc))[x.len() as int] == s {
        let i = vidx(loc);
        lemma_view_region(t, loc, i);
        lemma_pre_refl(kb(t, i));
        assert(in_view(t, loc, i) && spre(x, kb(t, i)) && kb(t, i)[x.len() as int] == s);
    }
}

/// [C11] in a canonical trie every view other than the whole-map view contains at least one stored entry
pub proof fn lemma_view_nonempty<P: Prefix, T>(t: Seq<Node<P, T>>, loc: ViewLoc<P>) -> (n: int)
    requires v_ok(t, loc), tcanon(t, tlive(t)), vidx(loc) != 0
    ensures in_view(t, loc, n), t[n].value.is_some()
{
    lemma_twf_live(t);
    let m = lemma_stored_below(t, tlive(t), vidx(loc));
    lemma_view_region(t, loc, m);
    m
}
