// ---------------------------------------------------------------------------------------------
// speclib/remove.rs -- map-level lemmas for value removal and node removal
// ---------------------------------------------------------------------------------------------

/// prefixes unchanged everywhere, values unchanged except at idx
pub open spec fn payload_frame<P: Prefix, T>(t0: Seq<Node<P, T>>, t1: Seq<Node<P, T>>, idx: int) -> bool {
    t1.len() == t0.len()
        && (forall|j: int| #![trigger t1[j]] 0 <= j < t0.len() ==> t1[j].prefix == t0[j].prefix)
        && (forall|j: int| #![trigger t1[j]] 0 <= j < t0.len() && j != idx ==> t1[j].value == t0[j].value)
}

/// slots that left the live set held no value (except idx itself)
pub open spec fn live_shrink<P: Prefix, T>(t0: Seq<Node<P, T>>, l0: ISet<int>, l1: ISet<int>, idx: int) -> bool {
    (forall|j: int| #[trigger] l1.contains(j) ==> l0.contains(j))
        && (forall|j: int| #![trigger l1.contains(j)] l0.contains(j) && !l1.contains(j) ==> j == idx || t0[j].value.is_none())
}

pub proof fn lemma_remove_content_count<P: Prefix, T>(m0: PrefixMap<P, T>, m1: PrefixMap<P, T>, idx: int)
    requires
        m0.wf(), m0.live().contains(idx),
        m1.wf_shape(), // [SHAPE]
        payload_frame(m0.tab(), m1.tab(), idx), // [C01,C18,COUNT]
        m1.tab()[idx].value.is_none(), // [C01,COUNT]
        live_shrink(m0.tab(), m0.live(), m1.live(), idx), // [FREE,C01,COUNT]
        m1.count as int == m0.count as int - (if m0.tab()[idx].value.is_some() { 1int } else { 0int }), // [COUNT]
    ensures
        m1.wf_count(),
        m1.content() =~= m0.content().remove(kb(m0.tab(), idx)),
        m0.content().dom().contains(kb(m0.tab(), idx)) == m0.tab()[idx].value.is_some(),
        m0.tab()[idx].value.is_some() ==> m0.content()[kb(m0.tab(), idx)] == (m0.tab()[idx].prefix, m0.tab()[idx].value.unwrap()),
{
    let t0 = m0.tab(); let t1 = m1.tab(); let l0 = m0.live(); let l1 = m1.live();
    lemma_glob(t0, l0);
    lemma_glob(t1, l1);
    let q = kb(t0, idx);
    lemma_get_step(t0, l0, idx, q);
    assert forall|i: int| 0 <= i && i != idx implies ind(t0, l0, i) == ind(t1, l1, i) by {
        if l0.contains(i) || l1.contains(i) {
            assert(l0.contains(i));
            assert(t1[i].value == t0[i].value);
        }
    }
    lemma_nval_ext(t0, l0, t0.len() as int, t1, l1, t1.len() as int, idx);
    assert forall|i: int| #[trigger] stored(t0, l0, i) && !(kb(t0, i) =~= q) implies
        stored(t1, l1, i) && kb(t1, i) == kb(t0, i) && t1[i].prefix == t0[i].prefix && t1[i].value == t0[i].value by {
        assert(i != idx);
        assert(t1[i].value == t0[i].value && t1[i].prefix == t0[i].prefix);
        if !l1.contains(i) { }
    }
    assert forall|i: int| #[trigger] stored(t1, l1, i) && !(kb(t1, i) =~= q) implies stored(t0, l0, i) && kb(t0, i) == kb(t1, i) by {
        assert(l0.contains(i));
        assert(t1[i].prefix == t0[i].prefix);
        if i != idx { assert(t1[i].value == t0[i].value); }
    }
    assert forall|i: int| !(#[trigger] stored(t1, l1, i) && kb(t1, i) =~= q) by {
        if stored(t1, l1, i) && kb(t1, i) =~= q {
            assert(l0.contains(i) && l0.contains(idx));
            assert(t1[i].prefix == t0[i].prefix);
            assert(kb(t0, i) =~= kb(t0, idx));
        }
    }
    assert(upd_rel::<P, T>(t0, l0, t1, l1, q, None));
    lemma_content_upd::<P, T>(t0, l0, t1, l1, q, None);
}

/// arguments of `_remove_node`: par / grp really are parent and grandparent of idx on the stated sides
pub open spec fn rm_pre<P: Prefix, T>(t: Seq<Node<P, T>>, live: ISet<int>, idx: int, par: Option<usize>, par_right: bool, grp: Option<usize>, grp_right: bool) -> bool {
    live.contains(idx)
        && (par.is_some() ==> live.contains(par.unwrap() as int) && is_child(t, par.unwrap() as int, par_right, idx))
        && (grp.is_some() ==> par.is_some() && live.contains(grp.unwrap() as int) && is_child(t, grp.unwrap() as int, grp_right, par.unwrap() as int))
        // callers pass `None` only where there is no such node: idx is the root / par is the root
        && (par.is_none() ==> idx == 0)
        && (grp.is_none() && par.is_some() ==> par.unwrap() == 0)
}

/// consequences of rm_pre used throughout the proof of `_remove_node`
pub proof fn lemma_rm_pre<P: Prefix, T>(t: Seq<Node<P, T>>, live: ISet<int>, idx: int, par: Option<usize>, par_right: bool, grp: Option<usize>, grp_right: bool)
    requires twf_live(t, live), rm_pre(t, live, idx, par, par_right, grp, grp_right)
    ensures
        0 <= idx < t.len(),
        par.is_some() ==> par.unwrap() < t.len() && par.unwrap() != idx && idx != 0,
        grp.is_some() ==> grp.unwrap() < t.len() && grp.unwrap() != idx && grp.unwrap() != par.unwrap() && par.unwrap() != 0,
        forall|s: bool| #![trigger chd(t, idx, s)] chd(t, idx, s).is_some() ==> chd(t, idx, s).unwrap() < t.len() && live.contains(chd(t, idx, s).unwrap() as int)
            && chd(t, idx, s).unwrap() != idx && (par.is_some() ==> chd(t, idx, s).unwrap() != par.unwrap()) && (grp.is_some() ==> chd(t, idx, s).unwrap() != grp.unwrap()),
        par.is_some() ==> (forall|s: bool| #![trigger chd(t, par.unwrap() as int, s)] chd(t, par.unwrap() as int, s).is_some() ==> chd(t, par.unwrap() as int, s).unwrap() < t.len()
            && live.contains(chd(t, par.unwrap() as int, s).unwrap() as int) && (grp.is_some() ==> chd(t, par.unwrap() as int, s).unwrap() != grp.unwrap())
            && chd(t, par.unwrap() as int, s).unwrap() != par.unwrap()),
{
    lemma_glob(t, live);
    assert forall|s: bool| #![trigger chd(t, idx, s)] chd(t, idx, s).is_some() implies chd(t, idx, s).unwrap() < t.len() && live.contains(chd(t, idx, s).unwrap() as int)
            && chd(t, idx, s).unwrap() != idx && (par.is_some() ==> chd(t, idx, s).unwrap() != par.unwrap()) && (grp.is_some() ==> chd(t, idx, s).unwrap() != grp.unwrap()) by {
        assert(child_ok(t, live, idx, s));
        if par.is_some() { assert(child_ok(t, live, par.unwrap() as int, par_right)); }
        if grp.is_some() { assert(child_ok(t, live, grp.unwrap() as int, grp_right)); }
    }
    if par.is_some() {
        let p = par.unwrap() as int;
        assert(child_ok(t, live, p, par_right));
        if grp.is_some() { assert(child_ok(t, live, grp.unwrap() as int, grp_right)); }
        assert forall|s: bool| #![trigger chd(t, p, s)] chd(t, p, s).is_some() implies chd(t, p, s).unwrap() < t.len()
            && live.contains(chd(t, p, s).unwrap() as int) && (grp.is_some() ==> chd(t, p, s).unwrap() != grp.unwrap())
            && chd(t, p, s).unwrap() != par.unwrap() by {
            assert(child_ok(t, live, p, s));
        }
    }
}

/// `remove`: what the abstract map says about the node found by the search
pub proof fn lemma_remove_content_pre<P: Prefix, T>(m0: PrefixMap<P, T>, idx: int)
    requires m0.wf(), m0.live().contains(idx)
    ensures
        m0.content().dom().contains(kb(m0.tab(), idx)) == m0.tab()[idx].value.is_some(),
        m0.tab()[idx].value.is_some() ==> m0.content()[kb(m0.tab(), idx)].1 == m0.tab()[idx].value.unwrap(),
{
    lemma_pre_refl(kb(m0.tab(), idx));
    lemma_get_step(m0.tab(), m0.live(), idx, kb(m0.tab(), idx));
}

/// keys (as bit strings) and links of every slot are the same
pub open spec fn shape_same<P: Prefix, T>(t0: Seq<Node<P, T>>, t1: Seq<Node<P, T>>) -> bool {
    t1.len() == t0.len() && forall|j: int| 0 <= j < t0.len() ==> #[trigger] same_shape_at(t0, t1, j)
}

/// state at the `break` of remove_keep_tree's search loop
pub open spec fn rkt_break<P: Prefix, T>(m0: PrefixMap<P, T>, m1: PrefixMap<P, T>, idx: int, q: Seq<bool>, value: Option<T>) -> bool {
    m0.live().contains(idx)
    && m1.free@ == m0.free@ && m1.count == m0.count && m1.tab().len() == m0.tab().len()
    && frame_nodes(m0.tab(), m1.tab(), idx, idx, idx)
    && m1.tab()[idx].prefix == m0.tab()[idx].prefix && m1.tab()[idx].left == m0.tab()[idx].left && m1.tab()[idx].right == m0.tab()[idx].right
    && (if kb(m0.tab(), idx) =~= q {
            value == m0.tab()[idx].value && m1.tab()[idx].value.is_none()
        } else {
            value.is_none() && m1.tab()[idx].value == m0.tab()[idx].value && !m0.content().dom().contains(q)
        })
}

pub proof fn lemma_rkt<P: Prefix, T>(m0: PrefixMap<P, T>, m1: PrefixMap<P, T>, idx: int, q: Seq<bool>, value: Option<T>)
    requires m0.wf(), rkt_break(m0, m1, idx, q, value)
    ensures
        value.is_some() ==> m1.count >= 1,
        value.is_some() == m0.content().dom().contains(q),
        value.is_some() ==> value.unwrap() == m0.content()[q].1,
{
    lemma_pre_refl(kb(m0.tab(), idx));
    lemma_get_step(m0.tab(), m0.live(), idx, kb(m0.tab(), idx));
    if value.is_some() {
        lemma_nval_pos(m0.tab(), m0.live(), m0.tab().len() as int, idx);
        assert(kb(m0.tab(), idx) == q);
    }
}

pub proof fn lemma_rkt_final<P: Prefix, T>(m0: PrefixMap<P, T>, m1: PrefixMap<P, T>, idx: int, q: Seq<bool>, value: Option<T>)
    requires
        m0.wf(), m0.live().contains(idx),
        m1.free@ == m0.free@, m1.tab().len() == m0.tab().len(), // [FREE,C15]
        frame_nodes(m0.tab(), m1.tab(), idx, idx, idx), // [SHAPE,C01,C15]
        m1.tab()[idx].prefix == m0.tab()[idx].prefix, // [C18,C01]
        m1.tab()[idx].left == m0.tab()[idx].left && m1.tab()[idx].right == m0.tab()[idx].right, // [SHAPE,C15]
        (if kb(m0.tab(), idx) =~= q {
            value == m0.tab()[idx].value && m1.tab()[idx].value.is_none()
        } else {
            value.is_none() && m1.tab()[idx].value == m0.tab()[idx].value && !m0.content().dom().contains(q)
        }), // [C01]
        m1.count as int == m0.count as int - (if value.is_some() { 1int } else { 0int }), // [COUNT]
    ensures
        m1.wf_shape(), m1.wf_free(), m1.wf_count(),
        m1.content() =~= m0.content().remove(q),
        shape_same(m0.tab(), m1.tab()),
{
    let t0 = m0.tab(); let t1 = m1.tab(); let l0 = m0.live();
    assert(m1.live() =~= l0);
    let par = lemma_twf_par(t0, l0);
    assert forall|j: int| 0 <= j < t0.len() implies #[trigger] same_shape_at(t0, t1, j) by {
        if j != idx { assert(t1[j] == t0[j]); }
    }
    lemma_relink_same(t0, l0, par, t1);
    lemma_twf_intro(t1, m1.live());
    if kb(t0, idx) =~= q {
        assert(kb(t0, idx) == q);
        assert forall|j: int| #![trigger t1[j]] 0 <= j < t0.len() implies t1[j].prefix == t0[j].prefix by {
            if j != idx { assert(t1[j] == t0[j]); }
        }
        assert forall|j: int| #![trigger t1[j]] 0 <= j < t0.len() && j != idx implies t1[j].value == t0[j].value by {
            assert(t1[j] == t0[j]);
        }
        lemma_remove_content_count(m0, m1, idx);
    } else {
        assert forall|j: int| 0 <= j < t0.len() implies t1[j] == t0[j] by {
            if j != idx { assert(t1[j] == t0[j]); }
        }
        assert(t1 =~= t0);
        assert(m1.content() =~= m0.content().remove(q));
    }
}
