// ---------------------------------------------------------------------------------------------
// speclib/region.rs -- removal of a whole sub-trie (remove_children / _do_remove_children)
// ---------------------------------------------------------------------------------------------

pub open spec fn live_minus_region<P: Prefix, T>(t: Seq<Node<P, T>>, live: ISet<int>, x: Seq<bool>) -> ISet<int> {
    ISet::new(|n: int| live.contains(n) && !pre(x, kb(t, n)))
}

/// the only edge that enters region(kb c) is p -> c
pub proof fn lemma_region_entry<P: Prefix, T>(t: Seq<Node<P, T>>, live: ISet<int>, p: int, s: bool, c: int, i: int, b: bool)
    requires
        twf_live(t, live), live.contains(p), is_child(t, p, s, c), live.contains(i),
        !pre(kb(t, c), kb(t, i)), chd(t, i, b).is_some(), pre(kb(t, c), kb(t, chd(t, i, b).unwrap() as int)),
    ensures i == p, b == s, chd(t, i, b).unwrap() as int == c
{
    lemma_glob(t, live);
    let d = chd(t, i, b).unwrap() as int;
    assert(child_ok(t, live, i, b));
    assert(child_ok(t, live, p, s));
    assert(live.contains(d) && live.contains(c));
    lemma_pre_comparable(kb(t, i), kb(t, c), kb(t, d));
    assert(spre(kb(t, i), kb(t, c)));
    assert(live.contains(i) && live.contains(c));
    assert(desc_ok(t, live, i, c));
    assert(kb(t, c)[kb(t, i).len() as int] == kb(t, d)[kb(t, i).len() as int]);
    assert(kb(t, d) =~= kb(t, c));
    assert(live.contains(d) && live.contains(c));
    assert(d == c);
    lemma_pre_comparable(kb(t, i), kb(t, p), kb(t, c));
    if kb(t, i) =~= kb(t, p) {
        assert(live.contains(i) && live.contains(p));
    } else if spre(kb(t, i), kb(t, p)) {
        assert(live.contains(i) && live.contains(p));
        assert(desc_ok(t, live, i, p));
    } else {
        assert(live.contains(p) && live.contains(i));
        assert(desc_ok(t, live, p, i));
    }
}

pub proof fn lemma_remove_region<P: Prefix, T>(t0: Seq<Node<P, T>>, l0: ISet<int>, t1: Seq<Node<P, T>>, p: int, s: bool, c: int)
    requires
        twf_live(t0, l0), l0.contains(p), is_child(t0, p, s, c), t1.len() == t0.len(),
        forall|j: int| l0.contains(j) && !pre(kb(t0, c), kb(t0, j)) && j != p ==> #[trigger] same_shape_at(t0, t1, j),
        kb(t1, p) == kb(t0, p), chd(t1, p, s).is_none(), chd(t1, p, !s) == chd(t0, p, !s),
    ensures twf_live(t1, live_minus_region(t0, l0, kb(t0, c)))
{
    let x = kb(t0, c);
    let l1 = live_minus_region(t0, l0, x);
    let par = lemma_twf_par(t0, l0);
    assert(child_ok(t0, l0, p, s));
    assert(l0.contains(0));
    assert(l1.contains(0));
    assert(!pre(x, kb(t0, p)));
    assert(l1.contains(p));
    assert(same_shape_at(t0, t1, 0) || p == 0);
    assert forall|i: int| #[trigger] l1.contains(i) implies 0 <= i < t1.len() && kb(t1, i).len() <= 255 by {
        assert(l0.contains(i));
        if i != p { assert(same_shape_at(t0, t1, i)); }
    }
    assert forall|i: int, b: bool| l1.contains(i) implies #[trigger] child_ok(t1, l1, i, b) by {
        assert(l0.contains(i));
        assert(child_ok(t0, l0, i, b));
        if i == p && b == s {
        } else {
            if i != p { assert(same_shape_at(t0, t1, i)); }
            if chd(t0, i, b).is_some() {
                let d = chd(t0, i, b).unwrap() as int;
                assert(l0.contains(d));
                if pre(x, kb(t0, d)) {
                    lemma_region_entry(t0, l0, p, s, c, i, b);
                }
                assert(l1.contains(d));
                if d != p { assert(same_shape_at(t0, t1, d)); }
            }
        }
    }
    assert forall|n: int| l1.contains(n) && n != 0 implies par_ok(t1, l1, n, #[trigger] par(n)) by {
        let q = par(n);
        assert(l0.contains(n));
        assert(par_ok(t0, l0, n, q));
        if pre(x, kb(t0, q)) { lemma_pre_trans(x, kb(t0, q), kb(t0, n)); }
        assert(l1.contains(q));
        if n != p { assert(same_shape_at(t0, t1, n)); }
        if q != p { assert(same_shape_at(t0, t1, q)); }
        if q == p && kb(t0, n)[kb(t0, p).len() as int] == s {
            assert(n == c);
            lemma_pre_refl(x);
        }
    }
    assert(tloc(t1, l1, par));
    lemma_twf_intro(t1, l1);
}

/// [C10] the abstract map after bulk removal: exactly the keys not covered by x survive, with their entries
pub open spec fn rc_content<P: Prefix, T>(m0: IMap<Seq<bool>, (P, T)>, m1: IMap<Seq<bool>, (P, T)>, x: Seq<bool>) -> bool {
    forall|k: Seq<bool>| (#[trigger] m1.dom().contains(k) == (m0.dom().contains(k) && !pre(x, k)))
        && (m1.dom().contains(k) ==> m1[k] == m0[k])
}

pub proof fn lemma_content_restrict<P: Prefix, T>(t0: Seq<Node<P, T>>, l0: ISet<int>, t1: Seq<Node<P, T>>, l1: ISet<int>, x: Seq<bool>)
    requires
        twf_live(t0, l0), twf_live(t1, l1),
        forall|i: int| #[trigger] l1.contains(i) ==> l0.contains(i) && !pre(x, kb(t0, i)) && t1[i].prefix == t0[i].prefix && t1[i].value == t0[i].value,
        forall|i: int| #![trigger l1.contains(i)] l0.contains(i) && !l1.contains(i) ==> pre(x, kb(t0, i)),
    ensures rc_content(content(t0, l0), content(t1, l1), x)
{
    let m0 = content(t0, l0); let m1 = content(t1, l1);
    assert forall|k: Seq<bool>| (#[trigger] m1.dom().contains(k) == (m0.dom().contains(k) && !pre(x, k)))
        && (m1.dom().contains(k) ==> m1[k] == m0[k]) by {
        lemma_content_dom(t0, l0, k);
        lemma_content_dom(t1, l1, k);
        if has_key(t1, l1, k) {
            let i = node_of(t1, l1, k);
            assert(l1.contains(i));
            assert(stored(t0, l0, i) && kb(t0, i) =~= k);
            lemma_content_at(t0, l0, i);
            lemma_content_at(t1, l1, i);
        }
        if has_key(t0, l0, k) && !pre(x, k) {
            let i = node_of(t0, l0, k);
            assert(l0.contains(i));
            if !l1.contains(i) { assert(pre(x, kb(t0, i))); }
            assert(l1.contains(i));
            assert(stored(t1, l1, i) && kb(t1, i) =~= k);
            lemma_content_at(t0, l0, i);
            lemma_content_at(t1, l1, i);
        }
    }
}

// ---- pigeonhole: a duplicate-free list of slots in (0, n) is shorter than n ----

pub proof fn lemma_pigeon(s: Seq<usize>, n: int)
    requires
        forall|k: int| 0 <= k < s.len() ==> 0 <= #[trigger] s[k] < n,
        forall|k: int, l: int| 0 <= k < l < s.len() ==> s[k] != s[l],
    ensures s.len() <= n || n < 0
    decreases n
{
    if n <= 0 {
        if s.len() > 0 { assert(0 <= s[0] < n); }
    } else if exists|k: int| 0 <= k < s.len() && s[k] == n - 1 {
        let k = choose|k: int| 0 <= k < s.len() && s[k] == n - 1;
        let s2 = s.subrange(0, k) + s.subrange(k + 1, s.len() as int);
        assert forall|j: int| 0 <= j < s2.len() implies 0 <= #[trigger] s2[j] < n - 1 by {
            if j < k { assert(s2[j] == s[j]); } else { assert(s2[j] == s[j + 1]); }
        }
        assert forall|a: int, b: int| 0 <= a < b < s2.len() implies s2[a] != s2[b] by {
            let a0 = if a < k { a } else { a + 1 };
            let b0 = if b < k { b } else { b + 1 };
            assert(s2[a] == s[a0] && s2[b] == s[b0]);
        }
        lemma_pigeon(s2, n - 1);
    } else {
        assert forall|j: int| 0 <= j < s.len() implies 0 <= #[trigger] s[j] < n - 1 by { }
        lemma_pigeon(s, n - 1);
    }
}

pub proof fn lemma_free_len(free: Seq<usize>, n: int)
    requires free_ok(free, n), n >= 0
    ensures free.len() <= n
{
    reveal(free_ok);
    lemma_pigeon(free, n);
}

// ---- invariant of the freeing loop of _do_remove_children ----

pub open spec fn incomparable(a: Seq<bool>, b: Seq<bool>) -> bool {
    !pre(a, b) && !pre(b, a)
}

/// part A of the loop invariant: arena, free list, counter, processed set
#[verifier::opaque]
pub open spec fn drc_a<P: Prefix, T>(m0: PrefixMap<P, T>, cur: PrefixMap<P, T>, d: ISet<int>, p: int, s: bool, c: int) -> bool {
    let t0 = m0.tab(); let l0 = m0.live(); let x = kb(t0, c); let t = cur.tab();
    &&& t.len() == t0.len()
    &&& cur.wf_free() && cur.wf_count()
    &&& (forall|n: int| #[trigger] d.contains(n) ==> l0.contains(n) && pre(x, kb(t0, n)) && t[n].value.is_none() && t[n].prefix == t0[n].prefix)
    &&& (forall|n: int| #[trigger] cur.live().contains(n) == (l0.contains(n) && !d.contains(n)))
    &&& (forall|j: int| 0 <= j < t0.len() && !d.contains(j) && j != p ==> #[trigger] t[j] == t0[j])
    &&& t[p].prefix == t0[p].prefix && t[p].value == t0[p].value && chd(t, p, s).is_none() && chd(t, p, !s) == chd(t0, p, !s)
}

/// part B: the stack denotes exactly the not-yet-processed part of the region (four separately opaque parts)
#[verifier::opaque]
pub open spec fn drc_b1<P: Prefix, T>(m0: PrefixMap<P, T>, st: Seq<usize>, d: ISet<int>, c: int) -> bool {
    let t0 = m0.tab(); let l0 = m0.live(); let x = kb(t0, c);
    forall|k: int| 0 <= k < st.len() ==> l0.contains(#[trigger] st[k] as int) && pre(x, kb(t0, st[k] as int)) && !d.contains(st[k] as int)
}

#[verifier::opaque]
pub open spec fn drc_b2<P: Prefix, T>(m0: PrefixMap<P, T>, st: Seq<usize>) -> bool {
    let t0 = m0.tab();
    forall|k: int, l: int| 0 <= k < l < st.len() ==> incomparable(kb(t0, #[trigger] st[k] as int), kb(t0, #[trigger] st[l] as int))
}

#[verifier::opaque]
pub open spec fn drc_b3<P: Prefix, T>(m0: PrefixMap<P, T>, st: Seq<usize>, d: ISet<int>, c: int) -> bool {
    let t0 = m0.tab(); let l0 = m0.live(); let x = kb(t0, c);
    forall|n: int| l0.contains(n) && pre(x, kb(t0, n)) && !#[trigger] d.contains(n) ==> exists|k: int| 0 <= k < st.len() && pre(kb(t0, #[trigger] st[k] as int), kb(t0, n))
}

#[verifier::opaque]
pub open spec fn drc_b4<P: Prefix, T>(m0: PrefixMap<P, T>, st: Seq<usize>, d: ISet<int>) -> bool {
    let t0 = m0.tab();
    forall|n: int, k: int| #[trigger] d.contains(n) && 0 <= k < st.len() ==> !pre(kb(t0, #[trigger] st[k] as int), kb(t0, n))
}

pub open spec fn drc_b<P: Prefix, T>(m0: PrefixMap<P, T>, st: Seq<usize>, d: ISet<int>, c: int) -> bool {
    drc_b1(m0, st, d, c) && drc_b2(m0, st) && drc_b3(m0, st, d, c) && drc_b4(m0, st, d)
}

pub open spec fn drc_inv<P: Prefix, T>(m0: PrefixMap<P, T>, cur: PrefixMap<P, T>, st: Seq<usize>, d: ISet<int>, p: int, s: bool, c: int) -> bool {
    drc_a(m0, cur, d, p, s, c) && drc_b(m0, st, d, c)
}

/// start of the loop: the child c of p has been unlinked, nothing freed yet
pub proof fn lemma_drc_init<P: Prefix, T>(m0: PrefixMap<P, T>, cur: PrefixMap<P, T>, st: Seq<usize>, p: int, s: bool, c: int)
    requires
        m0.wf(), m0.live().contains(p), is_child(m0.tab(), p, s, c),
        st =~= seq![c as usize],
        cur.free@ == m0.free@, cur.count == m0.count, cur.tab().len() == m0.tab().len(), // [FREE,COUNT]
        forall|j: int| 0 <= j < m0.tab().len() && j != p ==> #[trigger] cur.tab()[j] == m0.tab()[j], // [SHAPE,C01]
        cur.tab()[p].prefix == m0.tab()[p].prefix && cur.tab()[p].value == m0.tab()[p].value, // [C01,C18]
        chd(cur.tab(), p, s).is_none() && chd(cur.tab(), p, !s) == chd(m0.tab(), p, !s), // [SHAPE]
    ensures drc_inv(m0, cur, st, ISet::<int>::empty(), p, s, c)
{
    let t0 = m0.tab(); let l0 = m0.live(); let x = kb(t0, c);
    lemma_pre_refl(kb(t0, p));
    lemma_step(t0, l0, p, kb(t0, p));
    assert(l0.contains(c));
    assert(cur.live() =~= l0);
    lemma_pre_refl(x);
    assert(drc_a(m0, cur, ISet::<int>::empty(), p, s, c)) by {
        reveal(drc_a);
        assert forall|i: int| 0 <= i implies ind(t0, l0, i) == ind(cur.tab(), cur.live(), i) by {
            if l0.contains(i) && i != p { assert(cur.tab()[i] == t0[i]); }
        }
        lemma_nval_ext(t0, l0, t0.len() as int, cur.tab(), cur.live(), cur.tab().len() as int, -1);
    }
    assert(st[0] as int == c);
    assert(drc_b1(m0, st, ISet::<int>::empty(), c)) by { reveal(drc_b1); }
    assert(drc_b2(m0, st)) by { reveal(drc_b2); }
    assert(drc_b3(m0, st, ISet::<int>::empty(), c)) by {
        reveal(drc_b3);
        assert forall|n: int| l0.contains(n) && pre(x, kb(t0, n)) implies exists|k: int| 0 <= k < st.len() && pre(kb(t0, #[trigger] st[k] as int), kb(t0, n)) by {
            assert(pre(kb(t0, st[0] as int), kb(t0, n)));
        }
    }
    assert(drc_b4(m0, st, ISet::<int>::empty())) by { reveal(drc_b4); }
}

/// facts the loop body needs about the node it has just popped
pub proof fn lemma_drc_pop<P: Prefix, T>(m0: PrefixMap<P, T>, cur: PrefixMap<P, T>, st: Seq<usize>, d: ISet<int>, p: int, s: bool, c: int)
    requires m0.wf(), m0.live().contains(p), is_child(m0.tab(), p, s, c), drc_inv(m0, cur, st, d, p, s, c), st.len() > 0
    ensures
        ({
            let y = st.last() as int;
            0 < y < cur.tab().len() && y != p && cur.tab()[y] == m0.tab()[y] && cur.live().contains(y)
                && !cur.free@.contains(y as usize)
                && (cur.tab()[y].value.is_some() ==> cur.count >= 1)
                && cur.free@.len() < cur.tab().len()
                && cur.tab().len() == m0.tab().len()
        }),
{
    reveal(drc_a);
    reveal(drc_b1);
    reveal(drc_b2);
    reveal(drc_b3);
    reveal(drc_b4);
    let t0 = m0.tab(); let l0 = m0.live(); let x = kb(t0, c);
    let y = st.last() as int;
    lemma_glob(t0, l0);
    assert(child_ok(t0, l0, p, s));
    assert(l0.contains(st[st.len() - 1] as int));
    assert(cur.live().contains(y));
    assert(y != p) by { if y == p { lemma_pre_trans(x, kb(t0, y), kb(t0, c)); } }
    assert(y != 0);
    if cur.tab()[y].value.is_some() {
        lemma_nval_pos(cur.tab(), cur.live(), cur.tab().len() as int, y);
    }
    lemma_live_push(cur.free@, cur.tab().len() as int, y as usize);
    lemma_free_len(cur.free@.push(y as usize), cur.tab().len() as int);
}

/// one iteration, part A: y = top of stack is emptied and freed
pub proof fn lemma_drc_step_a<P: Prefix, T>(m0: PrefixMap<P, T>, cur: PrefixMap<P, T>, cur2: PrefixMap<P, T>, st: Seq<usize>, d: ISet<int>, p: int, s: bool, c: int)
    requires
        m0.wf(), m0.live().contains(p), is_child(m0.tab(), p, s, c), drc_inv(m0, cur, st, d, p, s, c), st.len() > 0,
        cur2.tab().len() == cur.tab().len(),
        forall|j: int| 0 <= j < cur.tab().len() && j != st.last() ==> #[trigger] cur2.tab()[j] == cur.tab()[j], // [SHAPE,C01]
        cur2.tab()[st.last() as int].value.is_none(), // [C01,COUNT]
        cur2.tab()[st.last() as int].prefix == cur.tab()[st.last() as int].prefix, // [C18]
        cur2.free@ == cur.free@.push(st.last()), // [FREE,C16]
        cur2.count as int == cur.count as int - (if cur.tab()[st.last() as int].value.is_some() { 1int } else { 0int }), // [COUNT]
    ensures drc_a(m0, cur2, d.insert(st.last() as int), p, s, c)
{
    lemma_drc_pop(m0, cur, st, d, p, s, c);
    reveal(drc_a);
    let t0 = m0.tab(); let l0 = m0.live(); let x = kb(t0, c);
    let y = st.last() as int;
    let d2 = d.insert(y);
    let t = cur.tab(); let t2 = cur2.tab();
    assert(l0.contains(y) && pre(x, kb(t0, y))) by { reveal(drc_b1); assert(l0.contains(st[st.len() - 1] as int)); }
    lemma_live_push(cur.free@, t.len() as int, y as usize);
    assert(cur.tab().len() == cur.table.0.len());
    assert(cur2.tab().len() == cur2.table.0.len());
    assert forall|n: int| #[trigger] cur2.live().contains(n) == (l0.contains(n) && !d2.contains(n)) by {
        if 0 <= n < t.len() {
            assert(cur2.free@.contains(n as usize) == (cur.free@.contains(n as usize) || n as usize == y as usize));
        }
        assert(cur.live().contains(n) == (l0.contains(n) && !d.contains(n)));
    }
    assert forall|i: int| 0 <= i && i != y implies ind(t, cur.live(), i) == ind(t2, cur2.live(), i) by {
        assert(cur.live().contains(i) == (l0.contains(i) && !d.contains(i)));
        assert(cur2.live().contains(i) == (l0.contains(i) && !d2.contains(i)));
        if 0 <= i < t.len() { assert(t2[i] == t[i]); }
    }
    lemma_nval_ext(t, cur.live(), t.len() as int, t2, cur2.live(), t2.len() as int, y);
    assert(cur.live().contains(y));
    assert(!cur2.live().contains(y));
    assert forall|n: int| #[trigger] d2.contains(n) implies l0.contains(n) && pre(x, kb(t0, n)) && t2[n].value.is_none() && t2[n].prefix == t0[n].prefix by {
        if n != y { assert(d.contains(n)); assert(t2[n] == t[n]); }
    }
    assert forall|j: int| 0 <= j < t0.len() && !d2.contains(j) && j != p implies #[trigger] t2[j] == t0[j] by {
        assert(t2[j] == t[j]);
        assert(t[j] == t0[j]);
    }
    assert(t2[p] == t[p]);
}

/// members of the new stack: old members below the top, then the children of y
pub proof fn lemma_drc_members<P: Prefix, T>(m0: PrefixMap<P, T>, st: Seq<usize>, st2: Seq<usize>, d: ISet<int>, c: int)
    requires
        m0.wf(), drc_b(m0, st, d, c), st.len() > 0,
        ({
            let y = st.last() as int;
            let rest = st.drop_last();
            let a = if m0.tab()[y].left.is_some() { rest.push(m0.tab()[y].left.unwrap()) } else { rest };
            st2 =~= (if m0.tab()[y].right.is_some() { a.push(m0.tab()[y].right.unwrap()) } else { a })
        }), // [SHAPE,C10,C16]
    ensures
        forall|k: int| 0 <= k < st2.len() ==> m0.live().contains(#[trigger] st2[k] as int)
            && (k < st.len() - 1 ==> st2[k] == st[k]) && (k >= st.len() - 1 ==> spre(kb(m0.tab(), st.last() as int), kb(m0.tab(), st2[k] as int))),
        st2.len() <= st.len() + 1,
        forall|a: int, b: int| st.len() - 1 <= a < b < st2.len() ==> kb(m0.tab(), st2[a] as int)[kb(m0.tab(), st.last() as int).len() as int] != kb(m0.tab(), st2[b] as int)[kb(m0.tab(), st.last() as int).len() as int],
        forall|side: bool| #![trigger chd(m0.tab(), st.last() as int, side)] chd(m0.tab(), st.last() as int, side).is_some() ==> exists|k: int| st.len() - 1 <= k < st2.len() && #[trigger] st2[k] == chd(m0.tab(), st.last() as int, side).unwrap(),
{
    let t0 = m0.tab(); let l0 = m0.live();
    let y = st.last() as int;
    let rest = st.drop_last();
    assert(l0.contains(y)) by { reveal(drc_b1); assert(l0.contains(st[st.len() - 1] as int)); }
    lemma_pre_refl(kb(t0, y));
    lemma_step(t0, l0, y, kb(t0, y));
    assert(chd(t0, y, false) == t0[y].left && chd(t0, y, true) == t0[y].right);
    assert forall|k: int| 0 <= k < st2.len() implies l0.contains(#[trigger] st2[k] as int)
            && (k < st.len() - 1 ==> st2[k] == st[k]) && (k >= st.len() - 1 ==> spre(kb(t0, y), kb(t0, st2[k] as int))) by {
        if k < rest.len() {
            assert(st2[k] == st[k]);
            assert(l0.contains(st[k] as int)) by { reveal(drc_b1); }
        } else {
            assert(st2[k] == t0[y].left.unwrap() || st2[k] == t0[y].right.unwrap());
        }
    }
    assert forall|a: int, b: int| st.len() - 1 <= a < b < st2.len() implies kb(t0, st2[a] as int)[kb(t0, y).len() as int] != kb(t0, st2[b] as int)[kb(t0, y).len() as int] by {
        assert(st2[a] == t0[y].left.unwrap() && st2[b] == t0[y].right.unwrap());
    }
    assert forall|side: bool| #![trigger chd(t0, y, side)] chd(t0, y, side).is_some() implies exists|k: int| st.len() - 1 <= k < st2.len() && #[trigger] st2[k] == chd(t0, y, side).unwrap() by {
        if side {
            assert(st2[st2.len() - 1] == chd(t0, y, side).unwrap());
        } else {
            if t0[y].right.is_some() { assert(st2[st2.len() - 2] == chd(t0, y, side).unwrap()); } else { assert(st2[st2.len() - 1] == chd(t0, y, side).unwrap()); }
        }
    }
}

/// one iteration, part B: the children of y replace y on the stack
pub proof fn lemma_drc_step_b1<P: Prefix, T>(m0: PrefixMap<P, T>, st: Seq<usize>, st2: Seq<usize>, d: ISet<int>, c: int)
    requires
        m0.wf(), drc_b(m0, st, d, c), st.len() > 0,
        ({
            let y = st.last() as int;
            let rest = st.drop_last();
            let a = if m0.tab()[y].left.is_some() { rest.push(m0.tab()[y].left.unwrap()) } else { rest };
            st2 =~= (if m0.tab()[y].right.is_some() { a.push(m0.tab()[y].right.unwrap()) } else { a })
        }), // [SHAPE,C10,C16]
    ensures drc_b1(m0, st2, d.insert(st.last() as int), c)
{
    lemma_drc_members(m0, st, st2, d, c);
    reveal(drc_b1); reveal(drc_b2); reveal(drc_b4);
    let t0 = m0.tab(); let l0 = m0.live(); let x = kb(t0, c);
    let y = st.last() as int;
    let rest = st.drop_last();
    let d2 = d.insert(y);
    assert(l0.contains(st[st.len() - 1] as int));
    lemma_pre_refl(kb(t0, y));
    assert forall|k: int| 0 <= k < st2.len() implies l0.contains(#[trigger] st2[k] as int) && pre(x, kb(t0, st2[k] as int)) && !d2.contains(st2[k] as int) by {
        if k < rest.len() {
            assert(st2[k] == st[k]);
            assert(l0.contains(st[k] as int));
            assert(incomparable(kb(t0, st[k] as int), kb(t0, st[st.len() - 1] as int)));
        } else {
            let z = st2[k] as int;
            lemma_pre_trans(x, kb(t0, y), kb(t0, z));
            if d.contains(z) { assert(!pre(kb(t0, st[st.len() - 1] as int), kb(t0, z))); }
        }
    }
}

pub proof fn lemma_drc_step_b2<P: Prefix, T>(m0: PrefixMap<P, T>, st: Seq<usize>, st2: Seq<usize>, d: ISet<int>, c: int)
    requires
        m0.wf(), drc_b(m0, st, d, c), st.len() > 0,
        ({
            let y = st.last() as int;
            let rest = st.drop_last();
            let a = if m0.tab()[y].left.is_some() { rest.push(m0.tab()[y].left.unwrap()) } else { rest };
            st2 =~= (if m0.tab()[y].right.is_some() { a.push(m0.tab()[y].right.unwrap()) } else { a })
        }), // [SHAPE,C10,C16]
    ensures drc_b2(m0, st2)
{
    lemma_drc_members(m0, st, st2, d, c);
    reveal(drc_b2);
    let t0 = m0.tab();
    let y = st.last() as int;
    let rest = st.drop_last();
    assert forall|k: int, l: int| 0 <= k < l < st2.len() implies incomparable(kb(t0, #[trigger] st2[k] as int), kb(t0, #[trigger] st2[l] as int)) by {
        let a = st2[k] as int; let b = st2[l] as int;
        if l < rest.len() {
            assert(st2[k] == st[k] && st2[l] == st[l]);
            assert(incomparable(kb(t0, st[k] as int), kb(t0, st[l] as int)));
        } else if k < rest.len() {
            assert(st2[k] == st[k]);
            assert(incomparable(kb(t0, st[k] as int), kb(t0, st[st.len() - 1] as int)));
            lemma_incomparable_ext(kb(t0, y), kb(t0, a), kb(t0, b));
        } else {
            assert(kb(t0, a)[kb(t0, y).len() as int] != kb(t0, b)[kb(t0, y).len() as int]);
            assert(spre(kb(t0, y), kb(t0, a)) && spre(kb(t0, y), kb(t0, b)));
        }
    }
}

pub proof fn lemma_drc_step_b3<P: Prefix, T>(m0: PrefixMap<P, T>, st: Seq<usize>, st2: Seq<usize>, d: ISet<int>, c: int)
    requires
        m0.wf(), drc_b(m0, st, d, c), st.len() > 0,
        ({
            let y = st.last() as int;
            let rest = st.drop_last();
            let a = if m0.tab()[y].left.is_some() { rest.push(m0.tab()[y].left.unwrap()) } else { rest };
            st2 =~= (if m0.tab()[y].right.is_some() { a.push(m0.tab()[y].right.unwrap()) } else { a })
        }), // [SHAPE,C10,C16]
    ensures drc_b3(m0, st2, d.insert(st.last() as int), c)
{
    lemma_drc_members(m0, st, st2, d, c);
    reveal(drc_b1); reveal(drc_b3);
    let t0 = m0.tab(); let l0 = m0.live(); let x = kb(t0, c);
    let y = st.last() as int;
    let rest = st.drop_last();
    let d2 = d.insert(y);
    assert(l0.contains(st[st.len() - 1] as int));
    assert forall|n: int| l0.contains(n) && pre(x, kb(t0, n)) && !#[trigger] d2.contains(n) implies exists|k: int| 0 <= k < st2.len() && pre(kb(t0, #[trigger] st2[k] as int), kb(t0, n)) by {
        assert(!d.contains(n));
        let k0 = choose|k: int| 0 <= k < st.len() && pre(kb(t0, #[trigger] st[k] as int), kb(t0, n));
        if k0 < rest.len() {
            assert(st2[k0] == st[k0]);
        } else {
            assert(st[k0] as int == y);
            if kb(t0, y) =~= kb(t0, n) { lemma_uniq(t0, l0, y, n); }
            assert(spre(kb(t0, y), kb(t0, n)));
            lemma_desc(t0, l0, y, n);
            let side = kb(t0, n)[kb(t0, y).len() as int];
            let k1 = choose|k: int| st.len() - 1 <= k < st2.len() && #[trigger] st2[k] == chd(t0, y, side).unwrap();
            assert(pre(kb(t0, st2[k1] as int), kb(t0, n)));
        }
    }
}

pub proof fn lemma_drc_step_b4<P: Prefix, T>(m0: PrefixMap<P, T>, st: Seq<usize>, st2: Seq<usize>, d: ISet<int>, c: int)
    requires
        m0.wf(), drc_b(m0, st, d, c), st.len() > 0,
        ({
            let y = st.last() as int;
            let rest = st.drop_last();
            let a = if m0.tab()[y].left.is_some() { rest.push(m0.tab()[y].left.unwrap()) } else { rest };
            st2 =~= (if m0.tab()[y].right.is_some() { a.push(m0.tab()[y].right.unwrap()) } else { a })
        }), // [SHAPE,C10,C16]
    ensures drc_b4(m0, st2, d.insert(st.last() as int))
{
    lemma_drc_members(m0, st, st2, d, c);
    reveal(drc_b2); reveal(drc_b4);
    let t0 = m0.tab();
    let y = st.last() as int;
    let rest = st.drop_last();
    let d2 = d.insert(y);
    assert forall|n: int, k: int| #[trigger] d2.contains(n) && 0 <= k < st2.len() implies !pre(kb(t0, #[trigger] st2[k] as int), kb(t0, n)) by {
        if k < rest.len() {
            assert(st2[k] == st[k]);
            if n == y {
                assert(incomparable(kb(t0, st[k] as int), kb(t0, st[st.len() - 1] as int)));
            } else {
                assert(d.contains(n));
            }
        } else {
            assert(spre(kb(t0, y), kb(t0, st2[k] as int)));
            if n != y {
                assert(d.contains(n));
                assert(!pre(kb(t0, st[st.len() - 1] as int), kb(t0, n)));
                if pre(kb(t0, st2[k] as int), kb(t0, n)) { lemma_pre_trans(kb(t0, y), kb(t0, st2[k] as int), kb(t0, n)); }
            }
        }
    }
}

pub proof fn lemma_drc_step_b<P: Prefix, T>(m0: PrefixMap<P, T>, st: Seq<usize>, st2: Seq<usize>, d: ISet<int>, c: int)
    requires
        m0.wf(), drc_b(m0, st, d, c), st.len() > 0,
        ({
            let y = st.last() as int;
            let rest = st.drop_last();
            let a = if m0.tab()[y].left.is_some() { rest.push(m0.tab()[y].left.unwrap()) } else { rest };
            st2 =~= (if m0.tab()[y].right.is_some() { a.push(m0.tab()[y].right.unwrap()) } else { a })
        }), // [SHAPE,C10,C16]
    ensures drc_b(m0, st2, d.insert(st.last() as int), c)
{
    lemma_drc_step_b1(m0, st, st2, d, c);
    lemma_drc_step_b2(m0, st, st2, d, c);
    lemma_drc_step_b3(m0, st, st2, d, c);
    lemma_drc_step_b4(m0, st, st2, d, c);
}

/// one iteration
pub proof fn lemma_drc_step<P: Prefix, T>(m0: PrefixMap<P, T>, cur: PrefixMap<P, T>, cur2: PrefixMap<P, T>, st: Seq<usize>, st2: Seq<usize>, d: ISet<int>, p: int, s: bool, c: int)
    requires
        m0.wf(), m0.live().contains(p), is_child(m0.tab(), p, s, c), drc_inv(m0, cur, st, d, p, s, c), st.len() > 0,
        cur2.tab().len() == cur.tab().len(),
        forall|j: int| 0 <= j < cur.tab().len() && j != st.last() ==> #[trigger] cur2.tab()[j] == cur.tab()[j], // [SHAPE,C01]
        cur2.tab()[st.last() as int].value.is_none(), // [C01,COUNT]
        cur2.tab()[st.last() as int].prefix == cur.tab()[st.last() as int].prefix, // [C18]
        cur2.free@ == cur.free@.push(st.last()), // [FREE,C16]
        cur2.count as int == cur.count as int - (if cur.tab()[st.last() as int].value.is_some() { 1int } else { 0int }), // [COUNT]
        ({
            let y = st.last() as int;
            let rest = st.drop_last();
            let a = if cur.tab()[y].left.is_some() { rest.push(cur.tab()[y].left.unwrap()) } else { rest };
            st2 =~= (if cur.tab()[y].right.is_some() { a.push(cur.tab()[y].right.unwrap()) } else { a })
        }), // [SHAPE,C10,C16]
    ensures drc_inv(m0, cur2, st2, d.insert(st.last() as int), p, s, c)
{
    lemma_drc_pop(m0, cur, st, d, p, s, c);
    lemma_drc_step_a(m0, cur, cur2, st, d, p, s, c);
    lemma_drc_step_b(m0, st, st2, d, c);
}

pub proof fn lemma_incomparable_ext(y: Seq<bool>, a: Seq<bool>, b: Seq<bool>)
    requires incomparable(a, y), pre(y, b)
    ensures incomparable(a, b)
{
    // a and y differ at some position below both lengths; b extends y
    if pre(a, b) {
        lemma_pre_comparable(a, y, b);
    }
    if pre(b, a) {
        lemma_pre_trans(y, b, a);
    }
}

/// loop exit: the whole region has been freed
pub proof fn lemma_drc_final<P: Prefix, T>(m0: PrefixMap<P, T>, cur: PrefixMap<P, T>, st: Seq<usize>, d: ISet<int>, p: int, s: bool, c: int)
    requires m0.wf(), m0.live().contains(p), is_child(m0.tab(), p, s, c), drc_inv(m0, cur, st, d, p, s, c), st.len() == 0
    ensures
        cur.wf_shape(), cur.wf_free(), cur.wf_count(),
        rc_content(m0.content(), cur.content(), kb(m0.tab(), c)),
        cur.tab().len() == m0.tab().len(),
{
    reveal(drc_a);
    reveal(drc_b1);
    reveal(drc_b2);
    reveal(drc_b3);
    reveal(drc_b4);
    let t0 = m0.tab(); let l0 = m0.live(); let x = kb(t0, c); let t = cur.tab();
    lemma_glob(t0, l0);
    assert(child_ok(t0, l0, p, s));
    let l1 = live_minus_region(t0, l0, x);
    assert forall|n: int| cur.live().contains(n) == l1.contains(n) by {
        assert(cur.live().contains(n) == (l0.contains(n) && !d.contains(n)));
        if l0.contains(n) && pre(x, kb(t0, n)) && !d.contains(n) {
            let k = choose|k: int| 0 <= k < st.len() && pre(kb(t0, #[trigger] st[k] as int), kb(t0, n));
        }
        if d.contains(n) { }
    }
    assert(cur.live() =~= l1);
    assert forall|j: int| l0.contains(j) && !pre(x, kb(t0, j)) && j != p implies #[trigger] same_shape_at(t0, t, j) by {
        assert(!d.contains(j));
        assert(t[j] == t0[j]);
    }
    lemma_remove_region(t0, l0, t, p, s, c);
    assert forall|i: int| #[trigger] l1.contains(i) implies l0.contains(i) && !pre(x, kb(t0, i)) && t[i].prefix == t0[i].prefix && t[i].value == t0[i].value by {
        assert(!d.contains(i));
        if i != p { assert(t[i] == t0[i]); }
    }
    lemma_content_restrict(t0, l0, t, l1, x);
}

// ---- remove_children: from the selector q to the sub-trie that is detached ----

/// live nodes covered by q are exactly the live nodes at or below c, the child of idx that q would adopt
pub proof fn lemma_region_same<P: Prefix, T>(t: Seq<Node<P, T>>, live: ISet<int>, idx: int, q: Seq<bool>, n: int)
    requires
        twf_live(t, live), live.contains(idx), pre(kb(t, idx), q), !(kb(t, idx) =~= q), live.contains(n),
        chd(t, idx, next_bit(kb(t, idx), q)).is_some(),
        pre(q, kb(t, chd(t, idx, next_bit(kb(t, idx), q)).unwrap() as int)),
    ensures pre(q, kb(t, n)) == pre(kb(t, chd(t, idx, next_bit(kb(t, idx), q)).unwrap() as int), kb(t, n))
{
    let c = chd(t, idx, next_bit(kb(t, idx), q)).unwrap() as int;
    if pre(kb(t, c), kb(t, n)) { lemma_pre_trans(q, kb(t, c), kb(t, n)); }
    if pre(q, kb(t, n)) {
        assert(spre(kb(t, idx), kb(t, n)));
        lemma_desc(t, live, idx, n);
        assert(kb(t, n)[kb(t, idx).len() as int] == q[kb(t, idx).len() as int]);
    }
}

/// NewLeaf / NewBranch: no live node is covered by q
pub proof fn lemma_region_empty<P: Prefix, T>(t: Seq<Node<P, T>>, live: ISet<int>, idx: int, q: Seq<bool>, n: int)
    requires
        twf_live(t, live), live.contains(idx), pre(kb(t, idx), q), !(kb(t, idx) =~= q), live.contains(n),
        chd(t, idx, next_bit(kb(t, idx), q)).is_none()
            || (!pre(q, kb(t, chd(t, idx, next_bit(kb(t, idx), q)).unwrap() as int)) && !pre(kb(t, chd(t, idx, next_bit(kb(t, idx), q)).unwrap() as int), q)),
    ensures !pre(q, kb(t, n))
{
    if pre(q, kb(t, n)) {
        assert(spre(kb(t, idx), kb(t, n)));
        lemma_desc(t, live, idx, n);
        assert(kb(t, n)[kb(t, idx).len() as int] == q[kb(t, idx).len() as int]);
        let c = chd(t, idx, next_bit(kb(t, idx), q)).unwrap() as int;
        lemma_pre_comparable(q, kb(t, c), kb(t, n));
    }
}

pub proof fn lemma_rc_nothing<P: Prefix, T>(m0: PrefixMap<P, T>, idx: int, q: Seq<bool>)
    requires
        m0.wf_shape(), m0.live().contains(idx), pre(kb(m0.tab(), idx), q), !(kb(m0.tab(), idx) =~= q),
        chd(m0.tab(), idx, next_bit(kb(m0.tab(), idx), q)).is_none()
            || (!pre(q, kb(m0.tab(), chd(m0.tab(), idx, next_bit(kb(m0.tab(), idx), q)).unwrap() as int))
                && !pre(kb(m0.tab(), chd(m0.tab(), idx, next_bit(kb(m0.tab(), idx), q)).unwrap() as int), q)),
    ensures rc_content(m0.content(), m0.content(), q)
{
    let t = m0.tab(); let l = m0.live();
    assert forall|k: Seq<bool>| (#[trigger] m0.content().dom().contains(k) == (m0.content().dom().contains(k) && !pre(q, k))) by {
        lemma_content_dom(t, l, k);
        if has_key(t, l, k) {
            let n = node_of(t, l, k);
            lemma_region_empty(t, l, idx, q, n);
        }
    }
}

/// NewChild: whatever map results from removing region(kb c) is the map with region(q) removed
pub proof fn lemma_rc_child<P: Prefix, T>(m0: PrefixMap<P, T>, idx: int, q: Seq<bool>)
    requires
        m0.wf_shape(), m0.live().contains(idx), pre(kb(m0.tab(), idx), q), !(kb(m0.tab(), idx) =~= q),
        chd(m0.tab(), idx, next_bit(kb(m0.tab(), idx), q)).is_some(),
        pre(q, kb(m0.tab(), chd(m0.tab(), idx, next_bit(kb(m0.tab(), idx), q)).unwrap() as int)),
    ensures
        forall|c1: IMap<Seq<bool>, (P, T)>| #[trigger] rc_content(m0.content(), c1, kb(m0.tab(), chd(m0.tab(), idx, next_bit(kb(m0.tab(), idx), q)).unwrap() as int))
            ==> rc_content(m0.content(), c1, q)
{
    let t = m0.tab(); let l = m0.live();
    let x = kb(t, chd(t, idx, next_bit(kb(t, idx), q)).unwrap() as int);
    assert forall|c1: IMap<Seq<bool>, (P, T)>| #[trigger] rc_content(m0.content(), c1, x) implies rc_content(m0.content(), c1, q) by {
        assert forall|k: Seq<bool>| (#[trigger] c1.dom().contains(k) == (m0.content().dom().contains(k) && !pre(q, k)))
            && (c1.dom().contains(k) ==> c1[k] == m0.content()[k]) by {
            lemma_content_dom(t, l, k);
            if has_key(t, l, k) {
                let n = node_of(t, l, k);
                lemma_region_same(t, l, idx, q, n);
            }
        }
    }
}
