// ---------------------------------------------------------------------------------------------
// speclib/retain.rs -- structural frame of `_remove_node` / `_retain` (C10, C01, C04, C15, C16).
// Only the node idx with its region, its parent par and its grandparent grp are touched.
// ---------------------------------------------------------------------------------------------

/// the optional index o denotes slot n
pub open spec fn opt_is(o: Option<usize>, n: int) -> bool {
    o.is_some() && o.unwrap() as int == n
}

/// node g is unchanged except (possibly) for its child pointer on side s
pub open spec fn same_but_child<P: Prefix, T>(a: Node<P, T>, b: Node<P, T>, s: bool) -> bool {
    a.prefix == b.prefix && a.value == b.value && (if s { a.left == b.left } else { a.right == b.right })
}

/// [C10,C15] what a removal below (idx, par, grp) may have done to the arena; `flag` = "par was spliced out"
#[verifier::opaque]
pub open spec fn rt_frame<P: Prefix, T>(t0: Seq<Node<P, T>>, live0: ISet<int>, t1: Seq<Node<P, T>>, live1: ISet<int>,
        idx: int, par: Option<usize>, par_right: bool, grp: Option<usize>, grp_right: bool, flag: bool) -> bool {
    let k = kb(t0, idx);
    &&& t1.len() == t0.len()
    &&& (forall|n: int| 0 <= n < t0.len() ==> (#[trigger] t1[n]).prefix == t0[n].prefix)
    &&& (forall|n: int| #![trigger live1.contains(n)] live1.contains(n) ==> live0.contains(n))
    &&& (forall|n: int| #![trigger live0.contains(n)] live0.contains(n) && !live1.contains(n) ==> pre(k, kb(t0, n)) || opt_is(par, n))
    &&& (forall|n: int| 0 <= n < t0.len() && !pre(k, kb(t0, n)) && !opt_is(par, n) && !opt_is(grp, n) ==> #[trigger] t1[n] == t0[n])
    &&& (par.is_none() ==> !flag)
    &&& (match par {
            Some(p) => {
                &&& t1[p as int].value == t0[p as int].value
                &&& chd(t1, p as int, !par_right) == chd(t0, p as int, !par_right)
                &&& (flag ==> !live1.contains(p as int) && t0[p as int].value.is_none() && chd(t0, p as int, !par_right).is_some() && grp.is_some())
                &&& (!flag ==> live1.contains(p as int) || (t0[p as int].value.is_none() && chd(t0, p as int, !par_right).is_none() && grp.is_some()))
                &&& (live1.contains(p as int) ==> (match chd(t1, p as int, par_right) { Some(c) => live1.contains(c as int) && pre(k, kb(t0, c as int)), None => true }))
            },
            None => true,
        })
    &&& (match grp {
            Some(g) => par.is_some() && same_but_child(t0[g as int], t1[g as int], grp_right)
                && chd(t1, g as int, grp_right) == (if flag { chd(t0, par.unwrap() as int, !par_right) } else if live1.contains(par.unwrap() as int) { chd(t0, g as int, grp_right) } else { None }),
            None => true,
        })
}

/// the compact description of one `_remove_node(idx, par, grp)` from which the frame follows
pub open spec fn rm_outcome<P: Prefix, T>(t0: Seq<Node<P, T>>, live0: ISet<int>, t1: Seq<Node<P, T>>, live1: ISet<int>,
        idx: int, par: Option<usize>, par_right: bool, grp: Option<usize>, grp_right: bool, flag: bool) -> bool {
    let pi = if par.is_some() { par.unwrap() as int } else { idx };
    let gi = if grp.is_some() { grp.unwrap() as int } else { idx };
    &&& t1.len() == t0.len()
    &&& frame_nodes(t0, t1, idx, pi, gi)
    &&& t1[idx].prefix == t0[idx].prefix
    &&& (par.is_some() ==> same_but_child(t0[pi], t1[pi], par_right))
    &&& (grp.is_some() ==> same_but_child(t0[gi], t1[gi], grp_right))
    &&& (forall|n: int| #![trigger live1.contains(n)] live1.contains(n) ==> live0.contains(n))
    &&& (forall|n: int| #![trigger live0.contains(n)] live0.contains(n) && !live1.contains(n) ==> n == idx || opt_is(par, n))
    &&& (par.is_none() ==> !flag)
    &&& (par.is_some() ==> {
            &&& (flag ==> !live1.contains(pi) && t0[pi].value.is_none() && chd(t0, pi, !par_right).is_some() && grp.is_some())
            &&& (!flag ==> live1.contains(pi) || (t0[pi].value.is_none() && chd(t0, pi, !par_right).is_none() && grp.is_some()))
            &&& (live1.contains(pi) ==> (match chd(t1, pi, par_right) {
                    Some(c) => live1.contains(c as int) && (c as int == idx || Some(c) == chd(t0, idx, false) || Some(c) == chd(t0, idx, true)),
                    None => true }))
        })
    &&& (grp.is_some() ==> chd(t1, gi, grp_right) == (if flag { chd(t0, pi, !par_right) } else if live1.contains(pi) { chd(t0, gi, grp_right) } else { None }))
}

pub proof fn lemma_rm_frame<P: Prefix, T>(t0: Seq<Node<P, T>>, live0: ISet<int>, t1: Seq<Node<P, T>>, live1: ISet<int>,
        idx: int, par: Option<usize>, par_right: bool, grp: Option<usize>, grp_right: bool, flag: bool)
    requires
        twf_live(t0, live0), rm_pre(t0, live0, idx, par, par_right, grp, grp_right),
        rm_outcome(t0, live0, t1, live1, idx, par, par_right, grp, grp_right, flag),
    ensures rt_frame(t0, live0, t1, live1, idx, par, par_right, grp, grp_right, flag)
{
    reveal(rt_frame);
    let k = kb(t0, idx);
    lemma_rm_pre(t0, live0, idx, par, par_right, grp, grp_right);
    lemma_pre_refl(k);
    let pi = if par.is_some() { par.unwrap() as int } else { idx };
    let gi = if grp.is_some() { grp.unwrap() as int } else { idx };
    assert forall|n: int| 0 <= n < t0.len() implies (#[trigger] t1[n]).prefix == t0[n].prefix by {
        if n != idx && n != pi && n != gi { assert(t1[n] == t0[n]); }
    }
    assert forall|n: int| 0 <= n < t0.len() && !pre(k, kb(t0, n)) && !opt_is(par, n) && !opt_is(grp, n) implies #[trigger] t1[n] == t0[n] by {
        assert(n != idx);
    }
    lemma_step(t0, live0, idx, k);
}

// ---- `_retain`: what the caller knows after each recursive call --------------------------------

/// facts about (idx as int, par, grp) in the entry state used by all path lemmas
pub proof fn lemma_rt_keys<P: Prefix, T>(t: Seq<Node<P, T>>, live: ISet<int>, idx: usize, par: Option<usize>, par_right: bool, grp: Option<usize>, grp_right: bool)
    requires twf_live(t, live), rm_pre(t, live, idx as int, par, par_right, grp, grp_right)
    ensures
        step_bounds(t, live, idx as int),
        par.is_some() ==> spre(kb(t, par.unwrap() as int), kb(t, idx as int)) && par.unwrap() < t.len() && par.unwrap() as int != idx as int,
        grp.is_some() ==> spre(kb(t, grp.unwrap() as int), kb(t, par.unwrap() as int)) && grp.unwrap() < t.len() && grp.unwrap() as int != idx as int && grp.unwrap() != par.unwrap(),
{
    lemma_pre_refl(kb(t, idx as int));
    lemma_step(t, live, idx as int, kb(t, idx as int));
    lemma_rm_pre(t, live, idx as int, par, par_right, grp, grp_right);
    if par.is_some() {
        let p = par.unwrap() as int;
        lemma_pre_refl(kb(t, p));
        lemma_step(t, live, p, kb(t, p));
    }
    if grp.is_some() {
        let g = grp.unwrap() as int;
        lemma_pre_refl(kb(t, g));
        lemma_step(t, live, g, kb(t, g));
    }
}

/// precondition of the recursive call into the child on side s
pub proof fn lemma_rt_pre_child<P: Prefix, T>(t: Seq<Node<P, T>>, live: ISet<int>, idx: usize, par: Option<usize>, par_right: bool, grp: Option<usize>, grp_right: bool, s: bool)
    requires twf_live(t, live), rm_pre(t, live, idx as int, par, par_right, grp, grp_right), chd(t, idx as int, s).is_some()
    ensures
        rm_pre(t, live, chd(t, idx as int, s).unwrap() as int, Some(idx), s, par, par_right),
        kb(t, chd(t, idx as int, s).unwrap() as int).len() > kb(t, idx as int).len(), kb(t, chd(t, idx as int, s).unwrap() as int).len() <= 255,
        idx < t.len(),
{
    lemma_rt_keys(t, live, idx, par, par_right, grp, grp_right);
}

/// after the call into the LEFT child returned `true`: idx as int was spliced out, its right child now hangs below par
pub proof fn lemma_rt_left_spliced<P: Prefix, T>(t0: Seq<Node<P, T>>, l0: ISet<int>, t1: Seq<Node<P, T>>, l1: ISet<int>,
        idx: usize, par: Option<usize>, par_right: bool, grp: Option<usize>, grp_right: bool)
    requires
        twf_live(t0, l0), rm_pre(t0, l0, idx as int, par, par_right, grp, grp_right), chd(t0, idx as int, false).is_some(),
        twf_live(t1, l1),
        rt_frame(t0, l0, t1, l1, chd(t0, idx as int, false).unwrap() as int, Some(idx), false, par, par_right, true),
    ensures
        t1[idx as int].right == t0[idx as int].right, t1[idx as int].right.is_some(), t1[idx as int].value.is_none(), t0[idx as int].value.is_none(),
        rm_pre(t1, l1, t1[idx as int].right.unwrap() as int, par, par_right, grp, grp_right),
        kb(t1, t1[idx as int].right.unwrap() as int) == kb(t0, t1[idx as int].right.unwrap() as int),
        kb(t0, t1[idx as int].right.unwrap() as int).len() > kb(t0, idx as int).len(),
{
    reveal(rt_frame);
    lemma_rt_keys(t0, l0, idx, par, par_right, grp, grp_right);
    let k = kb(t0, idx as int);
    let cl = chd(t0, idx as int, false).unwrap() as int;
    let r = chd(t0, idx as int, true).unwrap() as int;
    assert(chd(t1, idx as int, true) == chd(t0, idx as int, true));
    // r, par, grp lie outside the region of the left child
    assert(!pre(kb(t0, cl), kb(t0, r))) by { if pre(kb(t0, cl), kb(t0, r)) { assert(kb(t0, r)[k.len() as int] == kb(t0, cl)[k.len() as int]); } }
    assert(l1.contains(r));
    let p = par.unwrap() as int;
    assert(!pre(kb(t0, cl), kb(t0, p)));
    assert(l1.contains(p));
    if grp.is_some() {
        let g = grp.unwrap() as int;
        assert(!pre(kb(t0, cl), kb(t0, g)));
        assert(t1[g] == t0[g]);
        assert(l1.contains(g));
    }
}

/// after the call into the LEFT child returned `false`
pub proof fn lemma_rt_left_kept<P: Prefix, T>(t0: Seq<Node<P, T>>, l0: ISet<int>, t1: Seq<Node<P, T>>, l1: ISet<int>,
        idx: usize, par: Option<usize>, par_right: bool, grp: Option<usize>, grp_right: bool)
    requires
        twf_live(t0, l0), rm_pre(t0, l0, idx as int, par, par_right, grp, grp_right), chd(t0, idx as int, false).is_some(),
        twf_live(t1, l1),
        rt_frame(t0, l0, t1, l1, chd(t0, idx as int, false).unwrap() as int, Some(idx), false, par, par_right, false),
    ensures
        t1[idx as int].right == t0[idx as int].right, t1[idx as int].value == t0[idx as int].value, t1[idx as int].prefix == t0[idx as int].prefix,
        !l1.contains(idx as int) ==> t1[idx as int].right.is_none() && t1[idx as int].value.is_none(),
        l1.contains(idx as int) ==> rm_pre(t1, l1, idx as int, par, par_right, grp, grp_right),
        t1[idx as int].right.is_some() ==> kb(t1, t1[idx as int].right.unwrap() as int) == kb(t0, t1[idx as int].right.unwrap() as int) && kb(t1, idx as int) == kb(t0, idx as int),
{
    reveal(rt_frame);
    lemma_rt_keys(t0, l0, idx, par, par_right, grp, grp_right);
    let k = kb(t0, idx as int);
    let cl = chd(t0, idx as int, false).unwrap() as int;
    assert(chd(t1, idx as int, true) == chd(t0, idx as int, true));
    if par.is_some() {
        let p = par.unwrap() as int;
        assert(!pre(kb(t0, cl), kb(t0, p)));
        assert(l1.contains(p));
        if grp.is_some() {
            let g = grp.unwrap() as int;
            assert(!pre(kb(t0, cl), kb(t0, g)));
            assert(t1[g] == t0[g]);
            assert(l1.contains(g));
        }
    }
}

/// nothing has happened yet
pub proof fn lemma_rt_refl<P: Prefix, T>(t0: Seq<Node<P, T>>, l0: ISet<int>, idx: usize, par: Option<usize>, par_right: bool, grp: Option<usize>, grp_right: bool)
    requires twf_live(t0, l0), rm_pre(t0, l0, idx as int, par, par_right, grp, grp_right)
    ensures rt_frame(t0, l0, t0, l0, idx as int, par, par_right, grp, grp_right, false)
{
    reveal(rt_frame);
    lemma_rt_keys(t0, l0, idx, par, par_right, grp, grp_right);
    lemma_pre_refl(kb(t0, idx as int));
}

/// a call into the child c on side s of the (still live) node idx has returned; whatever it reported, par is still in place
pub proof fn lemma_rt_child_kept<P: Prefix, T>(t0: Seq<Node<P, T>>, l0: ISet<int>, ta: Seq<Node<P, T>>, la: ISet<int>, tb: Seq<Node<P, T>>, lb: ISet<int>,
        idx: usize, par: Option<usize>, par_right: bool, grp: Option<usize>, grp_right: bool, s: bool, fc: bool)
    requires
        twf_live(t0, l0), rm_pre(t0, l0, idx as int, par, par_right, grp, grp_right),
        twf_live(ta, la), rm_pre(ta, la, idx as int, par, par_right, grp, grp_right),
        rt_frame(t0, l0, ta, la, idx as int, par, par_right, grp, grp_right, false),
        ta[idx as int].value == t0[idx as int].value,
        par.is_some() ==> ta[par.unwrap() as int] == t0[par.unwrap() as int],
        grp.is_some() ==> ta[grp.unwrap() as int] == t0[grp.unwrap() as int],
        chd(ta, idx as int, s).is_some(),
        rt_frame(ta, la, tb, lb, chd(ta, idx as int, s).unwrap() as int, Some(idx), s, par, par_right, fc),
    ensures
        rt_frame(t0, l0, tb, lb, idx as int, par, par_right, grp, grp_right, false),
        tb[idx as int].value == t0[idx as int].value,
        chd(tb, idx as int, !s) == chd(ta, idx as int, !s),
        fc ==> !lb.contains(idx as int),
        !lb.contains(idx as int) ==> tb[idx as int].value.is_none() && (!fc ==> chd(ta, idx as int, !s).is_none()),
        lb.contains(idx as int) ==> (par.is_some() ==> tb[par.unwrap() as int] == t0[par.unwrap() as int]),
        grp.is_some() ==> tb[grp.unwrap() as int] == t0[grp.unwrap() as int],
        par.is_some() ==> lb.contains(par.unwrap() as int),
        lb.contains(idx as int) ==> rm_pre(tb, lb, idx as int, par, par_right, grp, grp_right),
        kb(tb, idx as int) == kb(t0, idx as int), tb[idx as int].prefix == t0[idx as int].prefix,
        chd(tb, idx as int, !s).is_some() ==> kb(tb, chd(tb, idx as int, !s).unwrap() as int) == kb(t0, chd(tb, idx as int, !s).unwrap() as int),
{
    reveal(rt_frame);
    lemma_rt_keys(t0, l0, idx, par, par_right, grp, grp_right);
    lemma_rt_keys(ta, la, idx, par, par_right, grp, grp_right);
    if grp.is_some() { assert(la.contains(grp.unwrap() as int)); }
    let k = kb(t0, idx as int);
    assert(kb(ta, idx as int) == k);
    let c = chd(ta, idx as int, s).unwrap() as int;
    let kc = kb(ta, c);
    assert(spre(k, kc));
    assert(kb(t0, c) == kc);
    lemma_pre_refl(k);
    // the region of c lies inside the region of idx; par and grp lie outside
    assert forall|n: int| 0 <= n < t0.len() && pre(kc, kb(ta, n)) implies pre(k, kb(t0, n)) by {
        lemma_pre_trans(k, kc, kb(ta, n));
    }
    if par.is_some() {
        let p = par.unwrap() as int;
        assert(!pre(kc, kb(ta, p)));
        if grp.is_some() {
            let g = grp.unwrap() as int;
            assert(!pre(kc, kb(ta, g)));
            assert(tb[g] == ta[g]);
        }
    }
    assert forall|n: int| 0 <= n < t0.len() && !pre(k, kb(t0, n)) && !opt_is(par, n) && !opt_is(grp, n) implies #[trigger] tb[n] == t0[n] by {
        assert(ta[n] == t0[n]);
        assert(!pre(kc, kb(ta, n)));
        assert(n != idx as int);
        assert(tb[n] == ta[n]);
    }
    assert forall|n: int| #![trigger l0.contains(n)] l0.contains(n) && !lb.contains(n) implies pre(k, kb(t0, n)) || opt_is(par, n) by {
        lemma_pre_refl(kb(t0, n));
        lemma_step(t0, l0, n, kb(t0, n));
        assert(ta[n].prefix == t0[n].prefix);
        if la.contains(n) {
            assert(pre(kc, kb(ta, n)) || n == idx as int);
            if pre(kc, kb(ta, n)) { lemma_pre_trans(k, kc, kb(ta, n)); }
        }
    }
}

/// left child call returned `true` (idx spliced out), then the call into the former right child r (now below par) returned fr
pub proof fn lemma_rt_spliced_done<P: Prefix, T>(t0: Seq<Node<P, T>>, l0: ISet<int>, t1: Seq<Node<P, T>>, l1: ISet<int>, t2: Seq<Node<P, T>>, l2: ISet<int>,
        idx: usize, par: Option<usize>, par_right: bool, grp: Option<usize>, grp_right: bool, fr: bool)
    requires
        twf_live(t0, l0), rm_pre(t0, l0, idx as int, par, par_right, grp, grp_right), chd(t0, idx as int, false).is_some(), chd(t0, idx as int, true).is_some(),
        twf_live(t1, l1),
        rt_frame(t0, l0, t1, l1, chd(t0, idx as int, false).unwrap() as int, Some(idx), false, par, par_right, true),
        rt_frame(t1, l1, t2, l2, chd(t0, idx as int, true).unwrap() as int, par, par_right, grp, grp_right, fr),
    ensures
        t2[idx as int].value.is_none(),
        rt_frame(t0, l0, t2, l2, idx as int, par, par_right, grp, grp_right, fr),
{
    reveal(rt_frame);
    lemma_rt_keys(t0, l0, idx, par, par_right, grp, grp_right);
    let k = kb(t0, idx as int);
    let cl = chd(t0, idx as int, false).unwrap() as int;
    let r = chd(t0, idx as int, true).unwrap() as int;
    let kl = kb(t0, cl); let kr = kb(t0, r);
    assert(kb(t1, r) == kr);
    lemma_pre_refl(k);
    let p = par.unwrap() as int;
    assert(!pre(kl, kb(t0, p)) && !pre(kr, kb(t0, p)));
    assert(!pre(kr, k)) ;
    assert(t2[idx as int] == t1[idx as int]);
    assert forall|n: int| 0 <= n < t0.len() implies (#[trigger] t2[n]).prefix == t0[n].prefix by {
        assert(t1[n].prefix == t0[n].prefix);
    }
    assert forall|n: int| 0 <= n < t0.len() && !pre(k, kb(t0, n)) && !opt_is(par, n) && !opt_is(grp, n) implies #[trigger] t2[n] == t0[n] by {
        assert(t1[n].prefix == t0[n].prefix);
        if pre(kl, kb(t0, n)) { lemma_pre_trans(k, kl, kb(t0, n)); }
        if pre(kr, kb(t1, n)) { lemma_pre_trans(k, kr, kb(t0, n)); }
        assert(n != idx as int);
        assert(t1[n] == t0[n]);
        assert(t2[n] == t1[n]);
    }
    assert forall|n: int| #![trigger l0.contains(n)] l0.contains(n) && !l2.contains(n) implies pre(k, kb(t0, n)) || opt_is(par, n) by {
        lemma_pre_refl(kb(t0, n));
        lemma_step(t0, l0, n, kb(t0, n));
        assert(t1[n].prefix == t0[n].prefix);
        if l1.contains(n) {
            if pre(kr, kb(t1, n)) { lemma_pre_trans(k, kr, kb(t0, n)); }
        } else {
            if pre(kl, kb(t0, n)) { lemma_pre_trans(k, kl, kb(t0, n)); }
        }
    }
    if grp.is_some() {
        let g = grp.unwrap() as int;
        assert(!pre(kl, kb(t0, g)));
        assert(t1[g] == t0[g]);
    }
    // children of par in the final state lie in the region of idx
    if l2.contains(p) {
        match chd(t2, p, par_right) {
            Some(c) => { assert(pre(kr, kb(t1, c as int))); assert(t1[c as int].prefix == t0[c as int].prefix) by { lemma_pre_refl(kb(t1, c as int)); lemma_rt_bound(t1, l1, t2, l2, c as int); } lemma_pre_trans(k, kr, kb(t0, c as int)); },
            None => {},
        }
    }
}

/// a node that is live after a step was live (hence in bounds) before it
pub proof fn lemma_rt_bound<P: Prefix, T>(t1: Seq<Node<P, T>>, l1: ISet<int>, t2: Seq<Node<P, T>>, l2: ISet<int>, c: int)
    requires twf_live(t1, l1), l2.contains(c), forall|n: int| #![trigger l2.contains(n)] l2.contains(n) ==> l1.contains(n)
    ensures 0 <= c < t1.len()
{
    lemma_pre_refl(kb(t1, c));
    lemma_step(t1, l1, c, kb(t1, c));
}

/// the children calls left idx in place; then idx itself was removed (same idx, par, grp)
pub proof fn lemma_rt_trans<P: Prefix, T>(t0: Seq<Node<P, T>>, l0: ISet<int>, t2: Seq<Node<P, T>>, l2: ISet<int>, t3: Seq<Node<P, T>>, l3: ISet<int>,
        idx: usize, par: Option<usize>, par_right: bool, grp: Option<usize>, grp_right: bool, fd: bool)
    requires
        twf_live(t0, l0), rm_pre(t0, l0, idx as int, par, par_right, grp, grp_right),
        twf_live(t2, l2),
        rt_frame(t0, l0, t2, l2, idx as int, par, par_right, grp, grp_right, false),
        par.is_some() ==> t2[par.unwrap() as int] == t0[par.unwrap() as int] && l2.contains(par.unwrap() as int),
        grp.is_some() ==> t2[grp.unwrap() as int] == t0[grp.unwrap() as int],
        rt_frame(t2, l2, t3, l3, idx as int, par, par_right, grp, grp_right, fd),
    ensures rt_frame(t0, l0, t3, l3, idx as int, par, par_right, grp, grp_right, fd)
{
    reveal(rt_frame);
    lemma_rt_keys(t0, l0, idx, par, par_right, grp, grp_right);
    let k = kb(t0, idx as int);
    assert(kb(t2, idx as int) == k);
    assert forall|n: int| 0 <= n < t0.len() implies (#[trigger] t3[n]).prefix == t0[n].prefix by {
        assert(t2[n].prefix == t0[n].prefix);
    }
    assert forall|n: int| 0 <= n < t0.len() && !pre(k, kb(t0, n)) && !opt_is(par, n) && !opt_is(grp, n) implies #[trigger] t3[n] == t0[n] by {
        assert(t2[n].prefix == t0[n].prefix);
        assert(t2[n] == t0[n]);
        assert(t3[n] == t2[n]);
    }
    assert forall|n: int| #![trigger l0.contains(n)] l0.contains(n) && !l3.contains(n) implies pre(k, kb(t0, n)) || opt_is(par, n) by {
        lemma_pre_refl(kb(t0, n));
        lemma_step(t0, l0, n, kb(t0, n));
        assert(t2[n].prefix == t0[n].prefix);
    }
    if par.is_some() && l3.contains(par.unwrap() as int) {
        match chd(t3, par.unwrap() as int, par_right) {
            Some(c) => { lemma_rt_bound(t2, l2, t3, l3, c as int); assert(t2[c as int].prefix == t0[c as int].prefix); },
            None => {},
        }
    }
}


// ---- content of `_retain` ------------------------------------------------------------------------

/// [C10] the entries at or below key k were filtered by f (kept exactly when f returned true), everything else is untouched
pub open spec fn rt_content<P: Prefix, T, F: FnMut(&P, &T) -> bool>(c0: IMap<Seq<bool>, (P, T)>, c1: IMap<Seq<bool>, (P, T)>, k: Seq<bool>, f: F) -> bool {
    &&& (forall|q: Seq<bool>| #[trigger] c1.dom().contains(q) ==> c0.dom().contains(q) && c1[q] == c0[q])
    &&& (forall|q: Seq<bool>| #[trigger] c0.dom().contains(q) && !pre(k, q) ==> c1.dom().contains(q))
    &&& (forall|q: Seq<bool>| #[trigger] c0.dom().contains(q) && pre(k, q) ==> f.ensures((&c0[q].0, &c0[q].1), c1.dom().contains(q)))
}

/// the two child regions were filtered one after the other, then the node itself was tested (b = result of f, if it stores a value)
pub proof fn lemma_rt_content<P: Prefix, T, F: FnMut(&P, &T) -> bool>(t0: Seq<Node<P, T>>, l0: ISet<int>,
        c1: IMap<Seq<bool>, (P, T)>, c2: IMap<Seq<bool>, (P, T)>, c3: IMap<Seq<bool>, (P, T)>, idx: int, f: F, b: bool)
    requires
        twf_live(t0, l0), l0.contains(idx),
        match chd(t0, idx, false) { Some(c) => rt_content(content(t0, l0), c1, kb(t0, c as int), f), None => c1 == content(t0, l0) },
        match chd(t0, idx, true) { Some(c) => rt_content(c1, c2, kb(t0, c as int), f), None => c2 == c1 },
        t0[idx].value.is_some() ==> f.ensures((&t0[idx].prefix, &t0[idx].value.unwrap()), b) && c3 =~= (if b { c2 } else { c2.remove(kb(t0, idx)) }),
        t0[idx].value.is_none() ==> c3 == c2,
    ensures rt_content(content(t0, l0), c3, kb(t0, idx), f)
{
    let c0 = content(t0, l0);
    let k = kb(t0, idx);
    lemma_pre_refl(k);
    lemma_step(t0, l0, idx, k);
    let cl = chd(t0, idx, false); let cr = chd(t0, idx, true);
    // keys of the two child regions
    let kl = if cl.is_some() { kb(t0, cl.unwrap() as int) } else { k };
    let kr = if cr.is_some() { kb(t0, cr.unwrap() as int) } else { k };
    if t0[idx].value.is_some() { lemma_content_at(t0, l0, idx); }
    // every stored key strictly below k lies in one of the child regions
    assert forall|q: Seq<bool>| #[trigger] c0.dom().contains(q) && pre(k, q) && !(q =~= k) implies
            (cl.is_some() && pre(kl, q) && !(cr.is_some() && pre(kr, q))) || (cr.is_some() && pre(kr, q) && !(cl.is_some() && pre(kl, q))) by {
        lemma_content_dom(t0, l0, q);
        let n = node_of(t0, l0, q);
        assert(l0.contains(n) && kb(t0, n) =~= q);
        lemma_step(t0, l0, idx, q);
        assert(on_path_below(t0, l0, idx, q, n));
        let s = next_bit(k, q);
        if cl.is_some() && pre(kl, q) && cr.is_some() && pre(kr, q) {
            assert(q[k.len() as int] == kl[k.len() as int] && q[k.len() as int] == kr[k.len() as int]);
        }
    }
    assert(c0.dom().contains(k) ==> t0[idx].value.is_some()) by {
        if c0.dom().contains(k) { lemma_content_dom(t0, l0, k); let n = node_of(t0, l0, k); assert(l0.contains(n) && kb(t0, n) =~= k); }
    }
    assert forall|q: Seq<bool>| #[trigger] c3.dom().contains(q) implies c0.dom().contains(q) && c3[q] == c0[q] by {
        assert(c2.dom().contains(q)); assert(c1.dom().contains(q));
    }
    assert forall|q: Seq<bool>| #[trigger] c0.dom().contains(q) && !pre(k, q) implies c3.dom().contains(q) by {
        if cl.is_some() && pre(kl, q) { lemma_pre_trans(k, kl, q); }
        assert(c1.dom().contains(q));
        if cr.is_some() && pre(kr, q) { lemma_pre_trans(k, kr, q); }
        assert(c2.dom().contains(q));
    }
    assert forall|q: Seq<bool>| #[trigger] c0.dom().contains(q) && pre(k, q) implies f.ensures((&c0[q].0, &c0[q].1), c3.dom().contains(q)) by {
        if q =~= k {
            assert(q == k);
            assert(c1.dom().contains(k));
            assert(c2.dom().contains(k));
        } else if cl.is_some() && pre(kl, q) {
            assert(c1.dom().contains(q) ==> c2.dom().contains(q));
            assert(c3.dom().contains(q) == c1.dom().contains(q));
        } else {
            assert(cr.is_some() && pre(kr, q));
            assert(c1.dom().contains(q) && c1[q] == c0[q]);
            assert(c3.dom().contains(q) == c2.dom().contains(q));
        }
    }
}


/// [C15] `_remove_node` keeps the shape canonical
pub proof fn lemma_rm_canon<P: Prefix, T>(t0: Seq<Node<P, T>>, live0: ISet<int>, t1: Seq<Node<P, T>>, live1: ISet<int>,
        idx: int, par: Option<usize>, par_right: bool, grp: Option<usize>, grp_right: bool, flag: bool)
    requires
        twf_live(t0, live0), rm_pre(t0, live0, idx, par, par_right, grp, grp_right),
        rm_outcome(t0, live0, t1, live1, idx, par, par_right, grp, grp_right, flag),
        tcanon(t0, live0),
        live1.contains(idx) ==> t1[idx].left == t0[idx].left && t1[idx].right == t0[idx].right && (idx == 0 || (t0[idx].left.is_some() && t0[idx].right.is_some())),
        par.is_some() && live1.contains(par.unwrap() as int) && chd(t1, par.unwrap() as int, par_right).is_none() ==> grp.is_none() || t0[par.unwrap() as int].value.is_some(),
    ensures tcanon(t1, live1)
{
    lemma_rm_pre(t0, live0, idx, par, par_right, grp, grp_right);
    let pi = if par.is_some() { par.unwrap() as int } else { idx };
    let gi = if grp.is_some() { grp.unwrap() as int } else { idx };
    assert forall|n: int| #![trigger live1.contains(n)] live1.contains(n) && n != 0 && t1[n].value.is_none() implies t1[n].left.is_some() && t1[n].right.is_some() by {
        assert(live0.contains(n));
        lemma_pre_refl(kb(t0, n));
        lemma_step(t0, live0, n, kb(t0, n));
        if n == idx {
        } else if par.is_some() && n == pi {
            assert(t0[pi].value.is_none());
            assert(t0[pi].left.is_some() && t0[pi].right.is_some());
        } else if grp.is_some() && n == gi {
            assert(t0[gi].left.is_some() && t0[gi].right.is_some());
            if !flag && !live1.contains(pi) {
                // the parent had no value and no other child: impossible in a canonical trie
                assert(live0.contains(pi) && pi != 0 && t0[pi].value.is_none());
                assert(t0[pi].left.is_some() && t0[pi].right.is_some());
            }
        } else {
            assert(t1[n] == t0[n]);
        }
    }
}


/// exit lemma of `_remove_node`: structural frame [C10] and canonical shape [C15] from one description of the outcome
pub proof fn lemma_rm_post<P: Prefix, T>(t0: Seq<Node<P, T>>, live0: ISet<int>, t1: Seq<Node<P, T>>, live1: ISet<int>,
        idx: int, par: Option<usize>, par_right: bool, grp: Option<usize>, grp_right: bool, flag: bool)
    requires
        twf_live(t0, live0), rm_pre(t0, live0, idx, par, par_right, grp, grp_right),
        rm_outcome(t0, live0, t1, live1, idx, par, par_right, grp, grp_right, flag),
        live1.contains(idx) ==> t1[idx].left == t0[idx].left && t1[idx].right == t0[idx].right && (idx == 0 || (t0[idx].left.is_some() && t0[idx].right.is_some())),
        par.is_some() && live1.contains(par.unwrap() as int) && chd(t1, par.unwrap() as int, par_right).is_none() ==> grp.is_none() || t0[par.unwrap() as int].value.is_some(),
    ensures
        rt_frame(t0, live0, t1, live1, idx, par, par_right, grp, grp_right, flag),
        tcanon(t0, live0) ==> tcanon(t1, live1),
{
    lemma_rm_frame(t0, live0, t1, live1, idx, par, par_right, grp, grp_right, flag);
    if tcanon(t0, live0) { lemma_rm_canon(t0, live0, t1, live1, idx, par, par_right, grp, grp_right, flag); }
}
