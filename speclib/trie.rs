// ---------------------------------------------------------------------------------------------
// speclib/trie.rs -- trie invariant (DESIGN.md 4.2).  Hand-written Verus; no code of /repo.
// `Node` is the struct extracted from src/inner.rs.
// ---------------------------------------------------------------------------------------------

pub open spec fn kb<P: Prefix, T>(t: Seq<Node<P, T>>, i: int) -> Seq<bool> {
    t[i].prefix.bits()
}

pub open spec fn chd<P: Prefix, T>(t: Seq<Node<P, T>>, i: int, right: bool) -> Option<usize> {
    if right { t[i].right } else { t[i].left }
}

pub open spec fn is_child<P: Prefix, T>(t: Seq<Node<P, T>>, i: int, right: bool, c: int) -> bool {
    chd(t, i, right).is_some() && chd(t, i, right).unwrap() as int == c
}

// ---- local formulation: what mutators re-establish ----

pub open spec fn t_root<P: Prefix, T>(t: Seq<Node<P, T>>, live: ISet<int>) -> bool {
    t.len() >= 1 && live.contains(0) && kb(t, 0).len() == 0
}

pub open spec fn t_bound<P: Prefix, T>(t: Seq<Node<P, T>>, live: ISet<int>) -> bool {
    forall|i: int| #[trigger] live.contains(i) ==> 0 <= i < t.len() && kb(t, i).len() <= 255
}

pub open spec fn child_ok<P: Prefix, T>(t: Seq<Node<P, T>>, live: ISet<int>, i: int, s: bool) -> bool {
    chd(t, i, s).is_some() ==> {
        let c = chd(t, i, s).unwrap() as int;
        live.contains(c) && spre(kb(t, i), kb(t, c)) && kb(t, c)[kb(t, i).len() as int] == s
    }
}

pub open spec fn t_child<P: Prefix, T>(t: Seq<Node<P, T>>, live: ISet<int>) -> bool {
    forall|i: int, s: bool| live.contains(i) ==> #[trigger] child_ok(t, live, i, s)
}

pub open spec fn par_ok<P: Prefix, T>(t: Seq<Node<P, T>>, live: ISet<int>, c: int, p: int) -> bool {
    live.contains(p) && spre(kb(t, p), kb(t, c)) && is_child(t, p, kb(t, c)[kb(t, p).len() as int], c)
}

pub open spec fn t_par<P: Prefix, T>(t: Seq<Node<P, T>>, live: ISet<int>, par: spec_fn(int) -> int) -> bool {
    forall|c: int| live.contains(c) && c != 0 ==> par_ok(t, live, c, #[trigger] par(c))
}

pub open spec fn tloc<P: Prefix, T>(t: Seq<Node<P, T>>, live: ISet<int>, par: spec_fn(int) -> int) -> bool {
    t_root(t, live) && t_bound(t, live) && t_child(t, live) && t_par(t, live, par)
}

/// the live set `live` makes `t` a well-linked trie.  Opaque: executable code only passes it around;
/// the lemmas below reveal it.
#[verifier::opaque]
pub open spec fn twf_live<P: Prefix, T>(t: Seq<Node<P, T>>, live: ISet<int>) -> bool {
    exists|par: spec_fn(int) -> int| tloc(t, live, par)
}

pub proof fn lemma_twf_intro<P: Prefix, T>(t: Seq<Node<P, T>>, live: ISet<int>)
    requires exists|par: spec_fn(int) -> int| tloc(t, live, par)
    ensures twf_live(t, live)
{
    reveal(twf_live);
}

pub proof fn lemma_twf_par<P: Prefix, T>(t: Seq<Node<P, T>>, live: ISet<int>) -> (par: spec_fn(int) -> int)
    requires twf_live(t, live)
    ensures tloc(t, live, par)
{
    reveal(twf_live);
    choose|par: spec_fn(int) -> int| tloc(t, live, par)
}

// ---- global formulation: what readers use ----

pub open spec fn t_uniq<P: Prefix, T>(t: Seq<Node<P, T>>, live: ISet<int>) -> bool {
    forall|i: int, j: int| #![trigger live.contains(i), live.contains(j)]
        live.contains(i) && live.contains(j) && kb(t, i) =~= kb(t, j) ==> i == j
}

pub open spec fn desc_ok<P: Prefix, T>(t: Seq<Node<P, T>>, live: ISet<int>, i: int, n: int) -> bool {
    let s = kb(t, n)[kb(t, i).len() as int];
    chd(t, i, s).is_some() && live.contains(chd(t, i, s).unwrap() as int)
        && pre(kb(t, chd(t, i, s).unwrap() as int), kb(t, n))
}

pub open spec fn t_desc<P: Prefix, T>(t: Seq<Node<P, T>>, live: ISet<int>) -> bool {
    forall|i: int, n: int| #![trigger live.contains(i), live.contains(n)]
        live.contains(i) && live.contains(n) && spre(kb(t, i), kb(t, n)) ==> desc_ok(t, live, i, n)
}

pub open spec fn tglob<P: Prefix, T>(t: Seq<Node<P, T>>, live: ISet<int>) -> bool {
    t_uniq(t, live) && t_desc(t, live)
}

// ---- lemma_glob: tloc ==> tglob, by mutual induction on key length ----

pub proof fn lemma_U<P: Prefix, T>(t: Seq<Node<P, T>>, live: ISet<int>, par: spec_fn(int) -> int, i: int, j: int)
    requires tloc(t, live, par), live.contains(i), live.contains(j), kb(t, i) =~= kb(t, j)
    ensures i == j
    decreases kb(t, i).len(), 0int
{
    if i == 0 || j == 0 {
        if i != 0 { assert(par_ok(t, live, i, par(i))); }
        if j != 0 { assert(par_ok(t, live, j, par(j))); }
    } else {
        let pi = par(i);
        let pj = par(j);
        assert(par_ok(t, live, i, pi));
        assert(par_ok(t, live, j, pj));
        lemma_pre_comparable(kb(t, pi), kb(t, pj), kb(t, i));
        if kb(t, pi) =~= kb(t, pj) {
            lemma_U(t, live, par, pi, pj);
        } else if spre(kb(t, pi), kb(t, pj)) {
            lemma_D(t, live, par, pi, pj);
            assert(desc_ok(t, live, pi, pj));
        } else {
            assert(spre(kb(t, pj), kb(t, pi)));
            lemma_D(t, live, par, pj, pi);
            assert(desc_ok(t, live, pj, pi));
        }
    }
}

pub proof fn lemma_D<P: Prefix, T>(t: Seq<Node<P, T>>, live: ISet<int>, par: spec_fn(int) -> int, i: int, n: int)
    requires tloc(t, live, par), live.contains(i), live.contains(n), spre(kb(t, i), kb(t, n))
    ensures desc_ok(t, live, i, n)
    decreases kb(t, n).len(), 1int
{
    assert(n != 0);
    let p = par(n);
    assert(par_ok(t, live, n, p));
    lemma_pre_comparable(kb(t, i), kb(t, p), kb(t, n));
    if kb(t, i) =~= kb(t, p) {
        lemma_U(t, live, par, i, p);
        assert(live.contains(n));
    } else if spre(kb(t, i), kb(t, p)) {
        lemma_D(t, live, par, i, p);
        assert(desc_ok(t, live, i, p));
    } else {
        assert(spre(kb(t, p), kb(t, i)));
        lemma_D(t, live, par, p, i);
        assert(desc_ok(t, live, p, i));
    }
}

pub proof fn lemma_glob_par<P: Prefix, T>(t: Seq<Node<P, T>>, live: ISet<int>, par: spec_fn(int) -> int)
    requires tloc(t, live, par)
    ensures tglob(t, live)
{
    assert forall|i: int, j: int| live.contains(i) && live.contains(j) && kb(t, i) =~= kb(t, j) implies i == j by {
        lemma_U(t, live, par, i, j);
    }
    assert forall|i: int, n: int| live.contains(i) && live.contains(n) && spre(kb(t, i), kb(t, n)) implies desc_ok(t, live, i, n) by {
        lemma_D(t, live, par, i, n);
    }
}

pub proof fn lemma_glob<P: Prefix, T>(t: Seq<Node<P, T>>, live: ISet<int>)
    requires twf_live(t, live)
    ensures tglob(t, live), t_root(t, live), t_bound(t, live), t_child(t, live)
{
    let par = lemma_twf_par(t, live);
    lemma_glob_par(t, live, par);
}

/// light version of lemma_twf: only the live-set fact, none of the pair-triggered global quantifiers
pub proof fn lemma_twf_live<P: Prefix, T>(t: Seq<Node<P, T>>)
    requires twf(t)
    ensures twf_live(t, tlive(t))
{
}

/// index bound of a live node (does not export the global quantifiers)
pub proof fn lemma_live_bound<P: Prefix, T>(t: Seq<Node<P, T>>, i: int)
    requires twf(t), tlive(t).contains(i)
    ensures 0 <= i < t.len(), kb(t, i).len() <= 255
{
    lemma_twf(t);
}

/// point-wise versions of (U) and (D): they do not bring the pair-triggered quantifiers into scope
pub proof fn lemma_desc<P: Prefix, T>(t: Seq<Node<P, T>>, live: ISet<int>, i: int, n: int)
    requires twf_live(t, live), live.contains(i), live.contains(n), spre(kb(t, i), kb(t, n))
    ensures desc_ok(t, live, i, n)
{
    let par = lemma_twf_par(t, live);
    lemma_D(t, live, par, i, n);
}

pub proof fn lemma_uniq<P: Prefix, T>(t: Seq<Node<P, T>>, live: ISet<int>, i: int, j: int)
    requires twf_live(t, live), live.contains(i), live.contains(j), kb(t, i) =~= kb(t, j)
    ensures i == j
{
    let par = lemma_twf_par(t, live);
    lemma_U(t, live, par, i, j);
}

// ---- uniqueness of the live set: it is the set of nodes reachable from the root ----

pub proof fn lemma_live_sub<P: Prefix, T>(t: Seq<Node<P, T>>, l1: ISet<int>, p1: spec_fn(int) -> int, l2: ISet<int>, p2: spec_fn(int) -> int, i: int)
    requires tloc(t, l1, p1), tloc(t, l2, p2), l1.contains(i)
    ensures l2.contains(i)
    decreases kb(t, i).len()
{
    if i != 0 {
        let p = p1(i);
        assert(par_ok(t, l1, i, p));
        lemma_live_sub(t, l1, p1, l2, p2, p);
        let s = kb(t, i)[kb(t, p).len() as int];
        assert(child_ok(t, l2, p, s));
    }
}

pub proof fn lemma_live_unique<P: Prefix, T>(t: Seq<Node<P, T>>, l1: ISet<int>, l2: ISet<int>)
    requires twf_live(t, l1), twf_live(t, l2)
    ensures l1 =~= l2
{
    let p1 = lemma_twf_par(t, l1);
    let p2 = lemma_twf_par(t, l2);
    assert forall|i: int| l1.contains(i) == l2.contains(i) by {
        if l1.contains(i) { lemma_live_sub(t, l1, p1, l2, p2, i); }
        if l2.contains(i) { lemma_live_sub(t, l2, p2, l1, p1, i); }
    }
}

/// table-level well-formedness (for readers that only hold a `&Table`)
pub open spec fn twf<P: Prefix, T>(t: Seq<Node<P, T>>) -> bool {
    exists|live: ISet<int>| twf_live(t, live)
}

pub open spec fn tlive<P: Prefix, T>(t: Seq<Node<P, T>>) -> ISet<int> {
    choose|live: ISet<int>| twf_live(t, live)
}

pub proof fn lemma_tlive<P: Prefix, T>(t: Seq<Node<P, T>>, live: ISet<int>)
    requires twf_live(t, live)
    ensures twf(t), tlive(t) =~= live
{
    lemma_live_unique(t, live, tlive(t));
}

pub proof fn lemma_twf<P: Prefix, T>(t: Seq<Node<P, T>>)
    requires twf(t)
    ensures twf_live(t, tlive(t)), tglob(t, tlive(t)), t_root(t, tlive(t)), t_bound(t, tlive(t)), t_child(t, tlive(t))
{
    lemma_glob(t, tlive(t));
}

// ---- entries ----

/// [C15] canonical shape: every value-less node other than the root is a true branching node (two children)
pub open spec fn tcanon<P: Prefix, T>(t: Seq<Node<P, T>>, live: ISet<int>) -> bool {
    forall|n: int| #![trigger live.contains(n)] live.contains(n) && n != 0 && t[n].value.is_none() ==> t[n].left.is_some() && t[n].right.is_some()
}

/// node `i` is a stored entry
pub open spec fn stored<P: Prefix, T>(t: Seq<Node<P, T>>, live: ISet<int>, i: int) -> bool {
    live.contains(i) && t[i].value.is_some()
}

/// key `k` is stored (at some node)
pub open spec fn has_key<P: Prefix, T>(t: Seq<Node<P, T>>, live: ISet<int>, k: Seq<bool>) -> bool {
    exists|i: int| stored(t, live, i) && kb(t, i) =~= k
}

pub open spec fn node_of<P: Prefix, T>(t: Seq<Node<P, T>>, live: ISet<int>, k: Seq<bool>) -> int {
    choose|i: int| stored(t, live, i) && kb(t, i) =~= k
}

/// the abstract map: key bits -> (stored prefix representation, value)
pub open spec fn content<P: Prefix, T>(t: Seq<Node<P, T>>, live: ISet<int>) -> IMap<Seq<bool>, (P, T)> {
    IMap::new(
        |k: Seq<bool>| has_key(t, live, k),
        |k: Seq<bool>| (t[node_of(t, live, k)].prefix, t[node_of(t, live, k)].value.unwrap()),
    )
}

pub proof fn lemma_content_at<P: Prefix, T>(t: Seq<Node<P, T>>, live: ISet<int>, i: int)
    requires twf_live(t, live), stored(t, live, i)
    ensures
        content(t, live).dom().contains(kb(t, i)),
        content(t, live)[kb(t, i)] == (t[i].prefix, t[i].value.unwrap()),
        node_of(t, live, kb(t, i)) == i,
{
    lemma_glob(t, live);
    let k = kb(t, i);
    assert(stored(t, live, i) && kb(t, i) =~= k);
    let j = node_of(t, live, k);
    assert(stored(t, live, j) && kb(t, j) =~= k);
    assert(live.contains(i) && live.contains(j));
}

/// a key stored in the map is stored at a live, valued node (unfolding of `content`)
pub proof fn lemma_content_dom<P: Prefix, T>(t: Seq<Node<P, T>>, live: ISet<int>, k: Seq<bool>)
    requires twf_live(t, live)
    ensures
        content(t, live).dom().contains(k) == has_key(t, live, k),
        has_key(t, live, k) ==> {
            let i = node_of(t, live, k);
            stored(t, live, i) && kb(t, i) =~= k && content(t, live)[k] == (t[i].prefix, t[i].value.unwrap())
        },
{
}

// ---- direction classifiers (contracts of Table::get_direction / get_direction_for_insert) ----

pub open spec fn next_bit(a: Seq<bool>, q: Seq<bool>) -> bool {
    a.len() < q.len() && q[a.len() as int]
}

pub open spec fn dir_spec<P: Prefix, T>(t: Seq<Node<P, T>>, cur: int, q: Seq<bool>, r: Direction) -> bool {
    match r {
        Direction::Reached => kb(t, cur) =~= q,
        Direction::Enter { next, right } => !(kb(t, cur) =~= q) && right == next_bit(kb(t, cur), q)
            && is_child(t, cur, right, next as int) && pre(kb(t, next as int), q),
        Direction::Missing => !(kb(t, cur) =~= q) && {
            let s = next_bit(kb(t, cur), q);
            chd(t, cur, s).is_none() || !pre(kb(t, chd(t, cur, s).unwrap() as int), q)
        },
    }
}

pub open spec fn dir_ins_spec<P: Prefix, T>(t: Seq<Node<P, T>>, cur: int, q: Seq<bool>, r: DirectionForInsert<P>) -> bool {
    let s = next_bit(kb(t, cur), q);
    match r {
        DirectionForInsert::Reached => kb(t, cur) =~= q,
        DirectionForInsert::Enter { next, right } => !(kb(t, cur) =~= q) && right == s
            && is_child(t, cur, right, next as int) && pre(kb(t, next as int), q),
        DirectionForInsert::NewLeaf { right } => !(kb(t, cur) =~= q) && right == s && chd(t, cur, s).is_none(),
        DirectionForInsert::NewChild { right, child_right } => !(kb(t, cur) =~= q) && right == s
            && chd(t, cur, s).is_some() && {
                let c = chd(t, cur, s).unwrap() as int;
                !pre(kb(t, c), q) && pre(q, kb(t, c)) && child_right == next_bit(q, kb(t, c))
            },
        DirectionForInsert::NewBranch { branch_prefix, right, prefix_right } => !(kb(t, cur) =~= q) && right == s
            && chd(t, cur, s).is_some() && {
                let c = chd(t, cur, s).unwrap() as int;
                let b = branch_prefix.bits();
                !pre(kb(t, c), q) && !pre(q, kb(t, c)) && pre(b, q) && pre(b, kb(t, c))
                    && b.len() < q.len() && b.len() < kb(t, c).len()
                    && q[b.len() as int] != kb(t, c)[b.len() as int]
                    && prefix_right == next_bit(b, q)
            },
    }
}

// ---- one step of a descent towards q (shared by every reader and by the mutators' search loops) ----

/// live node n lies strictly below idx on the path to q
pub open spec fn on_path_below<P: Prefix, T>(t: Seq<Node<P, T>>, live: ISet<int>, idx: int, q: Seq<bool>, n: int) -> bool {
    live.contains(n) && spre(kb(t, idx), kb(t, n)) && pre(kb(t, n), q)
}

pub open spec fn step_bounds<P: Prefix, T>(t: Seq<Node<P, T>>, live: ISet<int>, idx: int) -> bool {
    0 <= idx < t.len() && kb(t, idx).len() <= 255
        && (forall|s: bool| #![trigger chd(t, idx, s)] chd(t, idx, s).is_some() ==> chd(t, idx, s).unwrap() < t.len()
                && live.contains(chd(t, idx, s).unwrap() as int)
                && spre(kb(t, idx), kb(t, chd(t, idx, s).unwrap() as int))
                && kb(t, chd(t, idx, s).unwrap() as int).len() <= 255
                && kb(t, chd(t, idx, s).unwrap() as int)[kb(t, idx).len() as int] == s)
}

/// the root is live and has the empty key
pub proof fn lemma_root<P: Prefix, T>(t: Seq<Node<P, T>>, live: ISet<int>, q: Seq<bool>)
    requires twf_live(t, live)
    ensures t.len() >= 1, live.contains(0), kb(t, 0).len() == 0, pre(kb(t, 0), q)
{
    lemma_glob(t, live);
}

pub proof fn lemma_step<P: Prefix, T>(t: Seq<Node<P, T>>, live: ISet<int>, idx: int, q: Seq<bool>)
    requires twf_live(t, live), live.contains(idx), pre(kb(t, idx), q)
    ensures
        step_bounds(t, live, idx),
        // the path ends here: nothing live lies below idx on the way to q
        ({
            let s = next_bit(kb(t, idx), q);
            kb(t, idx) =~= q || chd(t, idx, s).is_none() || !pre(kb(t, chd(t, idx, s).unwrap() as int), q)
        }) ==> (forall|n: int| !#[trigger] on_path_below(t, live, idx, q, n)),
        // the path continues into c: everything below idx on the path is at or below c
        ({
            let s = next_bit(kb(t, idx), q);
            !(kb(t, idx) =~= q) && chd(t, idx, s).is_some() && pre(kb(t, chd(t, idx, s).unwrap() as int), q)
        }) ==> (forall|n: int| #[trigger] on_path_below(t, live, idx, q, n) ==>
                    pre(kb(t, chd(t, idx, next_bit(kb(t, idx), q)).unwrap() as int), kb(t, n))),
        // uniqueness of keys
        forall|n: int| live.contains(n) && kb(t, n) =~= kb(t, idx) ==> n == idx,
{
    lemma_glob(t, live);
    assert forall|s: bool| #![trigger chd(t, idx, s)] chd(t, idx, s).is_some() implies chd(t, idx, s).unwrap() < t.len()
                && live.contains(chd(t, idx, s).unwrap() as int)
                && spre(kb(t, idx), kb(t, chd(t, idx, s).unwrap() as int))
                && kb(t, chd(t, idx, s).unwrap() as int).len() <= 255
                && kb(t, chd(t, idx, s).unwrap() as int)[kb(t, idx).len() as int] == s by {
        assert(child_ok(t, live, idx, s));
        assert(live.contains(chd(t, idx, s).unwrap() as int));
    }
    let s = next_bit(kb(t, idx), q);
    assert forall|n: int| #[trigger] on_path_below(t, live, idx, q, n) implies
        !(kb(t, idx) =~= q) && chd(t, idx, s).is_some() && pre(kb(t, chd(t, idx, s).unwrap() as int), kb(t, n)) by {
        assert(live.contains(idx) && live.contains(n));
        assert(desc_ok(t, live, idx, n));
    }
    assert forall|n: int| live.contains(n) && kb(t, n) =~= kb(t, idx) implies n == idx by {
        assert(live.contains(n) && live.contains(idx));
    }
}
