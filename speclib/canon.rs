// ---------------------------------------------------------------------------------------------
// speclib/canon.rs -- [C15] a canonical well-formed trie is determined by its set of stored keys:
// its node keys are the empty key, the stored keys, and the branching points of two stored keys.
// ---------------------------------------------------------------------------------------------

/// k is the key of some node of the trie (stored, branching or root): what views can observe
pub open spec fn is_node_key<P: Prefix, T>(t: Seq<Node<P, T>>, live: ISet<int>, k: Seq<bool>) -> bool {
    exists|n: int| live.contains(n) && kb(t, n) =~= k
}

/// below every non-root node of a canonical trie there is a stored entry
pub proof fn lemma_stored_below<P: Prefix, T>(t: Seq<Node<P, T>>, live: ISet<int>, n: int) -> (m: int)
    requires twf_live(t, live), tcanon(t, live), live.contains(n), n != 0
    ensures stored(t, live, m), pre(kb(t, n), kb(t, m))
    decreases 256 - kb(t, n).len()
{
    lemma_pre_refl(kb(t, n));
    lemma_step(t, live, n, kb(t, n));
    if t[n].value.is_some() {
        n
    } else {
        assert(t[n].left.is_some());
        let c = chd(t, n, false).unwrap() as int;
        assert(c != 0) by { lemma_root(t, live, kb(t, n)); }
        let m = lemma_stored_below(t, live, c);
        lemma_pre_trans(kb(t, n), kb(t, c), kb(t, m));
        m
    }
}

/// ... and for a value-less non-root node there is one on either side
pub proof fn lemma_stored_below_side<P: Prefix, T>(t: Seq<Node<P, T>>, live: ISet<int>, n: int, s: bool) -> (m: int)
    requires twf_live(t, live), tcanon(t, live), live.contains(n), n != 0, t[n].value.is_none()
    ensures stored(t, live, m), spre(kb(t, n), kb(t, m)), kb(t, m)[kb(t, n).len() as int] == s
{
    lemma_pre_refl(kb(t, n));
    lemma_step(t, live, n, kb(t, n));
    let c = chd(t, n, s).unwrap() as int;
    assert(c != 0) by { lemma_root(t, live, kb(t, n)); }
    let m = lemma_stored_below(t, live, c);
    lemma_pre_trans(kb(t, n), kb(t, c), kb(t, m));
    m
}

/// two stored keys that branch at x (x is their longest common prefix) meet in a node with key x
pub proof fn lemma_meet<P: Prefix, T>(t: Seq<Node<P, T>>, live: ISet<int>, d: int, x: Seq<bool>, na: int, nb: int) -> (n: int)
    requires
        twf_live(t, live), live.contains(d), live.contains(na), live.contains(nb),
        pre(kb(t, d), x), spre(x, kb(t, na)), spre(x, kb(t, nb)), kb(t, na)[x.len() as int] != kb(t, nb)[x.len() as int],
    ensures live.contains(n), kb(t, n) =~= x
    decreases x.len() - kb(t, d).len()
{
    let kd = kb(t, d);
    if kd =~= x {
        d
    } else {
        let a = kb(t, na); let b = kb(t, nb);
        lemma_pre_trans(kd, x, a);
        lemma_pre_trans(kd, x, b);
        lemma_step(t, live, d, a);
        lemma_desc(t, live, d, na);
        lemma_desc(t, live, d, nb);
        let s = a[kd.len() as int];
        assert(b[kd.len() as int] == s) by { assert(x[kd.len() as int] == a[kd.len() as int] && x[kd.len() as int] == b[kd.len() as int]); }
        let c = chd(t, d, s).unwrap() as int;
        let kc = kb(t, c);
        assert(pre(kc, a) && pre(kc, b));
        // a common prefix of a and b cannot be longer than x
        assert(kc.len() <= x.len()) by {
            if kc.len() > x.len() { assert(kc[x.len() as int] == a[x.len() as int] && kc[x.len() as int] == b[x.len() as int]); }
        }
        assert(pre(kc, x)) by {
            assert forall|j: int| 0 <= j < kc.len() implies kc[j] == x[j] by { assert(kc[j] == a[j] && x[j] == a[j]); }
        }
        lemma_meet(t, live, c, x, na, nb)
    }
}

/// one direction of the uniqueness theorem
pub proof fn lemma_canon_sub<P: Prefix, T, U>(t1: Seq<Node<P, T>>, l1: ISet<int>, t2: Seq<Node<P, U>>, l2: ISet<int>, k: Seq<bool>)
    requires
        twf_live(t1, l1), twf_live(t2, l2), tcanon(t1, l1),
        forall|q: Seq<bool>| #[trigger] has_key(t1, l1, q) ==> has_key(t2, l2, q),
        is_node_key(t1, l1, k),
    ensures is_node_key(t2, l2, k)
{
    let n = choose|n: int| l1.contains(n) && kb(t1, n) =~= k;
    lemma_root(t2, l2, k);
    if n == 0 {
        lemma_root(t1, l1, k);
        assert(kb(t2, 0) =~= k);
    } else if t1[n].value.is_some() {
        assert(stored(t1, l1, n) && kb(t1, n) =~= k);
        assert(has_key(t1, l1, k));
        assert(has_key(t2, l2, k));
        let m = choose|i: int| stored(t2, l2, i) && kb(t2, i) =~= k;
        assert(l2.contains(m) && kb(t2, m) =~= k);
    } else {
        let ma = lemma_stored_below_side(t1, l1, n, false);
        let mb = lemma_stored_below_side(t1, l1, n, true);
        let a = kb(t1, ma); let b = kb(t1, mb);
        assert(has_key(t1, l1, a)) by { assert(stored(t1, l1, ma) && kb(t1, ma) =~= a); }
        assert(has_key(t1, l1, b)) by { assert(stored(t1, l1, mb) && kb(t1, mb) =~= b); }
        let na = choose|i: int| stored(t2, l2, i) && kb(t2, i) =~= a;
        let nb = choose|i: int| stored(t2, l2, i) && kb(t2, i) =~= b;
        let x = kb(t1, n);
        assert(kb(t2, na) == a && kb(t2, nb) == b);
        let r = lemma_meet(t2, l2, 0, x, na, nb);
        assert(l2.contains(r) && kb(t2, r) =~= k);
    }
}

/// [C15] two canonical tries that store the same keys have the same node keys (the same observable shape)
pub proof fn lemma_canon_unique<P: Prefix, T, U>(t1: Seq<Node<P, T>>, l1: ISet<int>, t2: Seq<Node<P, U>>, l2: ISet<int>)
    requires
        twf_live(t1, l1), twf_live(t2, l2), tcanon(t1, l1), tcanon(t2, l2),
        forall|q: Seq<bool>| #[trigger] has_key(t1, l1, q) == has_key(t2, l2, q),
    ensures forall|k: Seq<bool>| #[trigger] is_node_key(t1, l1, k) == is_node_key(t2, l2, k)
{
    assert forall|k: Seq<bool>| #[trigger] is_node_key(t1, l1, k) == is_node_key(t2, l2, k) by {
        if is_node_key(t1, l1, k) { lemma_canon_sub(t1, l1, t2, l2, k); }
        if is_node_key(t2, l2, k) { lemma_canon_sub(t2, l2, t1, l1, k); }
    }
}

/// ... and the same links: the child of a node on side s is the node with the shortest key extending (key, s)
pub proof fn lemma_child_key<P: Prefix, T>(t: Seq<Node<P, T>>, live: ISet<int>, n: int, s: bool, m: int)
    requires twf_live(t, live), live.contains(n), live.contains(m), spre(kb(t, n), kb(t, m)), kb(t, m)[kb(t, n).len() as int] == s
    ensures chd(t, n, s).is_some(), pre(kb(t, chd(t, n, s).unwrap() as int), kb(t, m)), spre(kb(t, n), kb(t, chd(t, n, s).unwrap() as int))
{
    lemma_pre_refl(kb(t, n));
    lemma_step(t, live, n, kb(t, n));
    lemma_desc(t, live, n, m);
}
