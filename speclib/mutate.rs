// ---------------------------------------------------------------------------------------------
// speclib/mutate.rs -- re-linking lemmas: each one re-establishes the local invariant `tloc`
// after one of the local surgery patterns of the mutators (DESIGN.md 5/C01).  Hand-written Verus.
// ---------------------------------------------------------------------------------------------

pub open spec fn same_shape_at<P: Prefix, T>(t: Seq<Node<P, T>>, t2: Seq<Node<P, T>>, j: int) -> bool {
    kb(t2, j) == kb(t, j) && t2[j].left == t[j].left && t2[j].right == t[j].right
}

pub open spec fn same_node_at<P: Prefix, T>(t: Seq<Node<P, T>>, t2: Seq<Node<P, T>>, j: int) -> bool {
    t2[j].prefix == t[j].prefix && t2[j].value == t[j].value && t2[j].left == t[j].left && t2[j].right == t[j].right
}

/// all slots below t.len() except a, b, c are unchanged (whole node)
pub open spec fn frame_nodes<P: Prefix, T>(t: Seq<Node<P, T>>, t2: Seq<Node<P, T>>, a: int, b: int, c: int) -> bool {
    t2.len() >= t.len()
        && forall|j: int| 0 <= j < t.len() && j != a && j != b && j != c ==> #[trigger] t2[j] == t[j]
}

/// ... keep at least key bits and links
pub open spec fn frame_shape<P: Prefix, T>(t: Seq<Node<P, T>>, t2: Seq<Node<P, T>>, a: int, b: int, c: int) -> bool {
    t2.len() >= t.len()
        && forall|j: int| 0 <= j < t.len() && j != a && j != b && j != c ==> #[trigger] same_shape_at(t, t2, j)
}

pub proof fn lemma_frame_nodes_shape<P: Prefix, T>(t: Seq<Node<P, T>>, t2: Seq<Node<P, T>>, a: int, b: int, c: int)
    requires frame_nodes(t, t2, a, b, c)
    ensures frame_shape(t, t2, a, b, c)
{
    assert forall|j: int| 0 <= j < t.len() && j != a && j != b && j != c implies #[trigger] same_shape_at(t, t2, j) by {
        assert(t2[j] == t[j]);
    }
}

/// value / representation overwrite: keys (as bit strings) and links unchanged everywhere
pub proof fn lemma_relink_same<P: Prefix, T>(t: Seq<Node<P, T>>, live: ISet<int>, par: spec_fn(int) -> int, t2: Seq<Node<P, T>>)
    requires
        tloc(t, live, par),
        t2.len() == t.len(),
        forall|j: int| 0 <= j < t.len() ==> #[trigger] same_shape_at(t, t2, j),
    ensures tloc(t2, live, par)
{
    assert(same_shape_at(t, t2, 0));
    assert forall|i: int| #[trigger] live.contains(i) implies 0 <= i < t2.len() && kb(t2, i).len() <= 255 by {
        assert(same_shape_at(t, t2, i));
    }
    assert forall|i: int, s: bool| live.contains(i) implies #[trigger] child_ok(t2, live, i, s) by {
        assert(child_ok(t, live, i, s));
        assert(same_shape_at(t, t2, i));
        if chd(t, i, s).is_some() {
            assert(same_shape_at(t, t2, chd(t, i, s).unwrap() as int));
        }
    }
    assert forall|c: int| live.contains(c) && c != 0 implies par_ok(t2, live, c, #[trigger] par(c)) by {
        assert(par_ok(t, live, c, par(c)));
        assert(same_shape_at(t, t2, c));
        assert(same_shape_at(t, t2, par(c)));
    }
}

pub open spec fn par_upd1(par: spec_fn(int) -> int, a: int, pa: int) -> spec_fn(int) -> int {
    |c: int| if c == a { pa } else { par(c) }
}

pub open spec fn par_upd2(par: spec_fn(int) -> int, a: int, pa: int, b: int, pb: int) -> spec_fn(int) -> int {
    |c: int| if c == a { pa } else if c == b { pb } else { par(c) }
}

pub open spec fn par_upd3(par: spec_fn(int) -> int, a: int, pa: int, b: int, pb: int, c0: int, pc: int) -> spec_fn(int) -> int {
    |c: int| if c == a { pa } else if c == b { pb } else if c == c0 { pc } else { par(c) }
}

/// NewLeaf: `new` becomes the s-child of idx (which had no s-child)
pub proof fn lemma_relink_leaf<P: Prefix, T>(t: Seq<Node<P, T>>, live: ISet<int>, par: spec_fn(int) -> int, t2: Seq<Node<P, T>>, idx: int, new: int, s: bool)
    requires
        tloc(t, live, par),
        live.contains(idx), !live.contains(new), 0 <= new < t2.len(),
        frame_shape(t, t2, idx, new, new),
        kb(t2, idx) == kb(t, idx),
        spre(kb(t, idx), kb(t2, new)), kb(t2, new)[kb(t, idx).len() as int] == s, kb(t2, new).len() <= 255,
        chd(t, idx, s).is_none(),
        chd(t2, idx, s).is_some(), chd(t2, idx, s).unwrap() as int == new,
        chd(t2, idx, !s) == chd(t, idx, !s),
        t2[new].left.is_none(), t2[new].right.is_none(),
    ensures tloc(t2, live.insert(new), par_upd1(par, new, idx))
{
    let live2 = live.insert(new);
    let par2 = par_upd1(par, new, idx);
    assert(idx != new);
    assert(live.contains(0));
    assert(same_shape_at(t, t2, 0) || idx == 0);
    assert forall|i: int| #[trigger] live2.contains(i) implies 0 <= i < t2.len() && kb(t2, i).len() <= 255 by {
        if i != new && i != idx { assert(live.contains(i)); assert(same_shape_at(t, t2, i)); }
    }
    assert forall|i: int, b: bool| live2.contains(i) implies #[trigger] child_ok(t2, live2, i, b) by {
        if i == new {
        } else if i == idx && b == s {
        } else {
            assert(live.contains(i));
            assert(child_ok(t, live, i, b));
            if i != idx { assert(same_shape_at(t, t2, i)); }
            if chd(t, i, b).is_some() {
                let c = chd(t, i, b).unwrap() as int;
                assert(live.contains(c));
                if c != idx { assert(same_shape_at(t, t2, c)); }
            }
        }
    }
    assert forall|c: int| live2.contains(c) && c != 0 implies par_ok(t2, live2, c, #[trigger] par2(c)) by {
        if c == new {
        } else {
            let p = par(c);
            assert(par2(c) == p);
            assert(par_ok(t, live, c, p));
            if c != idx { assert(same_shape_at(t, t2, c)); }
            if p != idx { assert(same_shape_at(t, t2, p)); }
        }
    }
}

/// NewChild: `new` is spliced between idx and its s-child c; c becomes the cs-child of new
pub proof fn lemma_relink_child<P: Prefix, T>(t: Seq<Node<P, T>>, live: ISet<int>, par: spec_fn(int) -> int, t2: Seq<Node<P, T>>, idx: int, new: int, s: bool, c: int, cs: bool)
    requires
        tloc(t, live, par),
        live.contains(idx), !live.contains(new), 0 <= new < t2.len(),
        frame_shape(t, t2, idx, new, new),
        kb(t2, idx) == kb(t, idx),
        is_child(t, idx, s, c),
        spre(kb(t, idx), kb(t2, new)), kb(t2, new)[kb(t, idx).len() as int] == s, kb(t2, new).len() <= 255,
        spre(kb(t2, new), kb(t, c)), kb(t, c)[kb(t2, new).len() as int] == cs,
        chd(t2, idx, s).is_some(), chd(t2, idx, s).unwrap() as int == new,
        chd(t2, idx, !s) == chd(t, idx, !s),
        chd(t2, new, cs).is_some(), chd(t2, new, cs).unwrap() as int == c,
        chd(t2, new, !cs).is_none(),
    ensures tloc(t2, live.insert(new), par_upd2(par, new, idx, c, new))
{
    let live2 = live.insert(new);
    let par2 = par_upd2(par, new, idx, c, new);
    assert(child_ok(t, live, idx, s));
    assert(live.contains(c));
    assert(idx != new && c != new && c != idx);
    assert(live.contains(0));
    assert(same_shape_at(t, t2, 0) || idx == 0);
    assert forall|i: int| #[trigger] live2.contains(i) implies 0 <= i < t2.len() && kb(t2, i).len() <= 255 by {
        if i != new && i != idx { assert(live.contains(i)); assert(same_shape_at(t, t2, i)); }
    }
    assert(same_shape_at(t, t2, c));
    assert forall|i: int, b: bool| live2.contains(i) implies #[trigger] child_ok(t2, live2, i, b) by {
        if i == new {
        } else if i == idx && b == s {
        } else {
            assert(live.contains(i));
            assert(child_ok(t, live, i, b));
            if i != idx { assert(same_shape_at(t, t2, i)); }
            if chd(t, i, b).is_some() {
                let d = chd(t, i, b).unwrap() as int;
                assert(live.contains(d));
                if d != idx { assert(same_shape_at(t, t2, d)); }
            }
        }
    }
    assert forall|d: int| live2.contains(d) && d != 0 implies par_ok(t2, live2, d, #[trigger] par2(d)) by {
        if d == new {
        } else if d == c {
        } else {
            let p = par(d);
            assert(par2(d) == p);
            assert(par_ok(t, live, d, p));
            if d != idx { assert(same_shape_at(t, t2, d)); }
            if p != idx { assert(same_shape_at(t, t2, p)); }
            if p == idx {
                // d is a child of idx other than c, hence on the other side
                assert(kb(t, d)[kb(t, idx).len() as int] != s);
            }
        }
    }
}

/// NewBranch: a value-less branch node `br` replaces the s-child c of idx; `new` and c hang below br
pub proof fn lemma_relink_branch<P: Prefix, T>(t: Seq<Node<P, T>>, live: ISet<int>, par: spec_fn(int) -> int, t2: Seq<Node<P, T>>, idx: int, br: int, new: int, s: bool, c: int, ps: bool)
    requires
        tloc(t, live, par),
        live.contains(idx), !live.contains(new), !live.contains(br), br != new, 0 <= new < t2.len(), 0 <= br < t2.len(),
        frame_shape(t, t2, idx, new, br),
        kb(t2, idx) == kb(t, idx),
        is_child(t, idx, s, c),
        spre(kb(t, idx), kb(t2, br)), kb(t2, br)[kb(t, idx).len() as int] == s,
        spre(kb(t2, br), kb(t2, new)), kb(t2, new)[kb(t2, br).len() as int] == ps, kb(t2, new).len() <= 255,
        spre(kb(t2, br), kb(t, c)), kb(t, c)[kb(t2, br).len() as int] == !ps,
        chd(t2, idx, s).is_some(), chd(t2, idx, s).unwrap() as int == br,
        chd(t2, idx, !s) == chd(t, idx, !s),
        chd(t2, br, ps).is_some(), chd(t2, br, ps).unwrap() as int == new,
        chd(t2, br, !ps).is_some(), chd(t2, br, !ps).unwrap() as int == c,
        t2[new].left.is_none(), t2[new].right.is_none(),
    ensures tloc(t2, live.insert(br).insert(new), par_upd3(par, new, br, br, idx, c, br))
{
    let live2 = live.insert(br).insert(new);
    let par2 = par_upd3(par, new, br, br, idx, c, br);
    assert(child_ok(t, live, idx, s));
    assert(live.contains(c));
    assert(idx != new && c != new && c != idx && idx != br && c != br);
    assert(live.contains(0));
    assert(same_shape_at(t, t2, 0) || idx == 0);
    assert forall|i: int| #[trigger] live2.contains(i) implies 0 <= i < t2.len() && kb(t2, i).len() <= 255 by {
        if i != new && i != idx && i != br { assert(live.contains(i)); assert(same_shape_at(t, t2, i)); }
    }
    assert(same_shape_at(t, t2, c));
    assert forall|i: int, b: bool| live2.contains(i) implies #[trigger] child_ok(t2, live2, i, b) by {
        if i == new {
        } else if i == br {
        } else if i == idx && b == s {
        } else {
            assert(live.contains(i));
            assert(child_ok(t, live, i, b));
            if i != idx { assert(same_shape_at(t, t2, i)); }
            if chd(t, i, b).is_some() {
                let d = chd(t, i, b).unwrap() as int;
                assert(live.contains(d));
                if d != idx { assert(same_shape_at(t, t2, d)); }
            }
        }
    }
    assert forall|d: int| live2.contains(d) && d != 0 implies par_ok(t2, live2, d, #[trigger] par2(d)) by {
        if d == new {
        } else if d == br {
        } else if d == c {
        } else {
            let p = par(d);
            assert(par2(d) == p);
            assert(par_ok(t, live, d, p));
            if d != idx { assert(same_shape_at(t, t2, d)); }
            if p != idx { assert(same_shape_at(t, t2, p)); }
            if p == idx {
                assert(kb(t, d)[kb(t, idx).len() as int] != s);
            }
        }
    }
}

// ---- abstract-map update (used by every single-key mutator) ----

/// stored entries whose key is not q are the same in both states; the entry at q is `e`
pub open spec fn upd_rel<P: Prefix, T>(t: Seq<Node<P, T>>, live: ISet<int>, t2: Seq<Node<P, T>>, live2: ISet<int>, q: Seq<bool>, e: Option<(P, T)>) -> bool {
    (forall|i: int| #[trigger] stored(t, live, i) && !(kb(t, i) =~= q) ==>
        stored(t2, live2, i) && kb(t2, i) == kb(t, i) && t2[i].prefix == t[i].prefix && t2[i].value == t[i].value)
    && (forall|i: int| #[trigger] stored(t2, live2, i) && !(kb(t2, i) =~= q) ==> stored(t, live, i) && kb(t, i) == kb(t2, i))
    && (match e {
        Some(pv) => exists|i: int| #[trigger] stored(t2, live2, i) && kb(t2, i) =~= q && t2[i].prefix == pv.0 && t2[i].value == Some(pv.1),
        None => forall|i: int| !(#[trigger] stored(t2, live2, i) && kb(t2, i) =~= q),
    })
}

pub open spec fn map_upd<K, V>(m: IMap<K, V>, k: K, e: Option<V>) -> IMap<K, V> {
    match e { Some(v) => m.insert(k, v), None => m.remove(k) }
}

pub proof fn lemma_content_upd<P: Prefix, T>(t: Seq<Node<P, T>>, live: ISet<int>, t2: Seq<Node<P, T>>, live2: ISet<int>, q: Seq<bool>, e: Option<(P, T)>)
    requires twf_live(t, live), twf_live(t2, live2), upd_rel(t, live, t2, live2, q, e)
    ensures content(t2, live2) =~= map_upd(content(t, live), q, e)
{
    let m = content(t, live);
    let m2 = content(t2, live2);
    let mu = map_upd(m, q, e);
    lemma_glob(t, live);
    lemma_glob(t2, live2);
    assert forall|k: Seq<bool>| m2.dom().contains(k) == mu.dom().contains(k) && (m2.dom().contains(k) ==> m2[k] == mu[k]) by {
        lemma_content_dom(t, live, k);
        lemma_content_dom(t2, live2, k);
        if k =~= q {
            assert(k == q);
            match e {
                Some(pv) => {
                    let i = choose|i: int| #[trigger] stored(t2, live2, i) && kb(t2, i) =~= q && t2[i].prefix == pv.0 && t2[i].value == Some(pv.1);
                    lemma_content_at(t2, live2, i);
                },
                None => {
                    if has_key(t2, live2, k) {
                        let i = node_of(t2, live2, k);
                        assert(stored(t2, live2, i) && kb(t2, i) =~= q);
                    }
                },
            }
        } else {
            if has_key(t, live, k) {
                let i = node_of(t, live, k);
                assert(stored(t, live, i) && !(kb(t, i) =~= q));
                lemma_content_at(t, live, i);
                lemma_content_at(t2, live2, i);
            }
            if has_key(t2, live2, k) {
                let i = node_of(t2, live2, k);
                assert(stored(t2, live2, i) && !(kb(t2, i) =~= q));
                assert(stored(t, live, i) && kb(t, i) =~= k);
                lemma_content_at(t, live, i);
                lemma_content_at(t2, live2, i);
            }
        }
    }
}

/// the leaf x (child of p on side s, no children) is unlinked and leaves the live set
pub proof fn lemma_unlink_leaf<P: Prefix, T>(t: Seq<Node<P, T>>, live: ISet<int>, par: spec_fn(int) -> int, t2: Seq<Node<P, T>>, p: int, s: bool, x: int)
    requires
        tloc(t, live, par),
        live.contains(p), is_child(t, p, s, x),
        t[x].left.is_none(), t[x].right.is_none(),
        frame_shape(t, t2, p, x, x), t2.len() == t.len(),
        kb(t2, p) == kb(t, p),
        chd(t2, p, s).is_none(), chd(t2, p, !s) == chd(t, p, !s),
    ensures tloc(t2, live.remove(x), par), x != 0, x != p, live.contains(x)
{
    let live2 = live.remove(x);
    assert(child_ok(t, live, p, s));
    assert(x != p && x != 0);
    assert(live.contains(0));
    assert(same_shape_at(t, t2, 0) || p == 0);
    assert forall|i: int| #[trigger] live2.contains(i) implies 0 <= i < t2.len() && kb(t2, i).len() <= 255 by {
        assert(live.contains(i));
        if i != p { assert(same_shape_at(t, t2, i)); }
    }
    assert forall|i: int, b: bool| live2.contains(i) implies #[trigger] child_ok(t2, live2, i, b) by {
        assert(live.contains(i));
        assert(child_ok(t, live, i, b));
        if i == p && b == s {
        } else {
            if i != p { assert(same_shape_at(t, t2, i)); }
            if chd(t, i, b).is_some() {
                let d = chd(t, i, b).unwrap() as int;
                assert(live.contains(d));
                if d != p && d != x { assert(same_shape_at(t, t2, d)); }
                if d == x {
                    // x has exactly one parent: the one its key selects
                    lemma_glob_par(t, live, par);
                    assert(live.contains(i) && live.contains(p));
                    if i != p {
                        // both i and p have x as child: their keys are prefixes of kb(x) => comparable; use (D)
                        lemma_pre_comparable(kb(t, i), kb(t, p), kb(t, x));
                        if kb(t, i) =~= kb(t, p) {
                        } else if spre(kb(t, i), kb(t, p)) {
                            assert(live.contains(i) && live.contains(p));
                            assert(desc_ok(t, live, i, p));
                        } else {
                            assert(live.contains(p) && live.contains(i));
                            assert(desc_ok(t, live, p, i));
                        }
                    }
                }
            }
        }
    }
    assert forall|c: int| live2.contains(c) && c != 0 implies par_ok(t2, live2, c, #[trigger] par(c)) by {
        let q = par(c);
        assert(par_ok(t, live, c, q));
        assert(q != x);
        if c != p { assert(same_shape_at(t, t2, c)); }
        if q != p { assert(same_shape_at(t, t2, q)); }
    }
}

/// node p (gs-child of g) has exactly one child c (on side cs); c takes p's place under g, p leaves the live set
pub proof fn lemma_splice_out<P: Prefix, T>(t: Seq<Node<P, T>>, live: ISet<int>, par: spec_fn(int) -> int, t2: Seq<Node<P, T>>, g: int, gs: bool, p: int, cs: bool, c: int)
    requires
        tloc(t, live, par),
        live.contains(g), is_child(t, g, gs, p), is_child(t, p, cs, c), chd(t, p, !cs).is_none(),
        frame_shape(t, t2, g, p, p), t2.len() == t.len(),
        kb(t2, g) == kb(t, g),
        is_child(t2, g, gs, c), chd(t2, g, !gs) == chd(t, g, !gs),
    ensures tloc(t2, live.remove(p), par_upd1(par, c, g)), p != 0, p != g, live.contains(p), live.contains(c), c != p, c != g
{
    let live2 = live.remove(p);
    let par2 = par_upd1(par, c, g);
    assert(child_ok(t, live, g, gs));
    assert(live.contains(p));
    assert(child_ok(t, live, p, cs));
    assert(live.contains(c));
    assert(p != g && p != 0 && c != p && c != g && c != 0);
    assert(live.contains(0));
    assert(same_shape_at(t, t2, 0) || g == 0);
    assert(same_shape_at(t, t2, c));
    assert forall|i: int| #[trigger] live2.contains(i) implies 0 <= i < t2.len() && kb(t2, i).len() <= 255 by {
        assert(live.contains(i));
        if i != g { assert(same_shape_at(t, t2, i)); }
    }
    lemma_glob_par(t, live, par);
    assert forall|i: int, b: bool| live2.contains(i) implies #[trigger] child_ok(t2, live2, i, b) by {
        assert(live.contains(i));
        assert(child_ok(t, live, i, b));
        if i == g && b == gs {
            lemma_pre_trans(kb(t, g), kb(t, p), kb(t, c));
        } else {
            if i != g { assert(same_shape_at(t, t2, i)); }
            if chd(t, i, b).is_some() {
                let d = chd(t, i, b).unwrap() as int;
                assert(live.contains(d));
                if d != g && d != p { assert(same_shape_at(t, t2, d)); }
                if d == p {
                    // p has exactly one parent
                    assert(live.contains(i) && live.contains(g));
                    if i != g {
                        lemma_pre_comparable(kb(t, i), kb(t, g), kb(t, p));
                        if kb(t, i) =~= kb(t, g) {
                        } else if spre(kb(t, i), kb(t, g)) {
                            assert(desc_ok(t, live, i, g));
                        } else {
                            assert(live.contains(g) && live.contains(i));
                            assert(desc_ok(t, live, g, i));
                        }
                    }
                }
            }
        }
    }
    assert forall|d: int| live2.contains(d) && d != 0 implies par_ok(t2, live2, d, #[trigger] par2(d)) by {
        if d == c {
            lemma_pre_trans(kb(t, g), kb(t, p), kb(t, c));
        } else {
            let q = par(d);
            assert(par2(d) == q);
            assert(par_ok(t, live, d, q));
            if q == p {
                // d is a child of p, but p's only child is c
                assert(false);
            }
            if d != g { assert(same_shape_at(t, t2, d)); }
            if q != g { assert(same_shape_at(t, t2, q)); }
            if q == g {
                assert(kb(t, d)[kb(t, g).len() as int] != gs) by {
                    if kb(t, d)[kb(t, g).len() as int] == gs { assert(d == p); }
                }
            }
        }
    }
}

// ---- wrappers in terms of the opaque twf_live (used from executable code) ----

pub proof fn lemma_same_shape_wf<P: Prefix, T>(t: Seq<Node<P, T>>, live: ISet<int>, t2: Seq<Node<P, T>>)
    requires
        twf_live(t, live),
        t2.len() == t.len(),
        forall|j: int| 0 <= j < t.len() ==> #[trigger] same_shape_at(t, t2, j),
    ensures twf_live(t2, live)
{
    let par = lemma_twf_par(t, live);
    lemma_relink_same(t, live, par, t2);
    lemma_twf_intro(t2, live);
}

pub proof fn lemma_unlink_leaf_wf<P: Prefix, T>(t: Seq<Node<P, T>>, live: ISet<int>, t2: Seq<Node<P, T>>, p: int, s: bool, x: int)
    requires
        twf_live(t, live),
        live.contains(p), is_child(t, p, s, x),
        t[x].left.is_none(), t[x].right.is_none(),
        frame_shape(t, t2, p, x, x), t2.len() == t.len(),
        kb(t2, p) == kb(t, p),
        chd(t2, p, s).is_none(), chd(t2, p, !s) == chd(t, p, !s),
    ensures twf_live(t2, live.remove(x)), x != 0, x != p, live.contains(x)
{
    let par = lemma_twf_par(t, live);
    lemma_unlink_leaf(t, live, par, t2, p, s, x);
    lemma_twf_intro(t2, live.remove(x));
}

pub proof fn lemma_splice_out_wf<P: Prefix, T>(t: Seq<Node<P, T>>, live: ISet<int>, t2: Seq<Node<P, T>>, g: int, gs: bool, p: int, cs: bool, c: int)
    requires
        twf_live(t, live),
        live.contains(g), is_child(t, g, gs, p), is_child(t, p, cs, c), chd(t, p, !cs).is_none(),
        frame_shape(t, t2, g, p, p), t2.len() == t.len(),
        kb(t2, g) == kb(t, g),
        is_child(t2, g, gs, c), chd(t2, g, !gs) == chd(t, g, !gs),
    ensures twf_live(t2, live.remove(p)), p != 0, p != g, live.contains(p), live.contains(c), c != p, c != g
{
    let par = lemma_twf_par(t, live);
    lemma_splice_out(t, live, par, t2, g, gs, p, cs, c);
    lemma_twf_intro(t2, live.remove(p));
}
